"""C05 - ManageSieve replies are read identically however the bytes are
segmented.

Differential over the schedule only: the same session (same server bytes) is
executed with the drawn delivery schedule (R1) and with every ``net`` choice
masked to 0 = deliver what was asked for (R0).  Any difference in an
operation's outcome, errcode/errmsg or in the bytes the client wrote is a
violation.
"""

from simkit import gen
from simkit.chooser import Chooser, tape_copy
from simkit.core import Failure, RunResult
from simkit.mserver import ServerConfig, F_TRUNC
from simkit.world import World
from simkit.tracefmt import render_events

PROP = "C05"
LEVEL = "exploration"
TITLE = "replies are read identically however the bytes are segmented"

RULE = ("Sessions (connect, 1-6 drawn operations - in a quarter of the sessions one reply ends early at a drawn byte and the "
        "same object reconnects -, 3 sentinel operations) against the reference RFC 5804 server with "
        "randomised reply encodings and forced NO/BYE; each is executed twice from the same tape, once with the drawn "
        "recv segmentation and once with every recv satisfied in full. 'sweep' jobs enumerate, for one generated "
        "session, every single cut position of every reply up to 400 bytes, every pair of cut positions of every reply "
        "up to 48 bytes and recv limited to 1/2/3/7/64 bytes; 'random' jobs draw a schedule (whole / fixed / random "
        "k-way / cut set / structure-boundary cuts, read_size swarm). A case is non-trivial when at least one recv ended "
        "inside a reply; distinct = distinct (verb, final status, set of structural span kinds that were cut) triples.")
COMPONENTS = {"real": ["sievelib.managesieve.Client (all of it)", "sievelib.digest_md5"],
              "stub": ["socket module (simkit.net)", "ssl module (simkit.net)", "ManageSieve server (simkit.mserver)",
                       "random module inside digest_md5"]}
ASSUMPTIONS = ["the reference server's bytes are a function of the non-net part of the tape and of what the client wrote",
               "TCP is reliable and ordered: only segmentation is varied here; the one stream fault used (a reply that ends early, "
               "followed by a reconnect of the same object) happens at the same byte in both executions"]
BUDGET = {"quick": 150, "thorough": 900}

OPS = ["skip", "capability", "listscripts", "getscript", "putscript", "checkscript",
       "deletescript", "renamescript", "setactive", "havespace", "getscript", "listscripts"]
READ_SIZES = [4096, 1, 2, 7, 64, 65536]


class Session:
    def __init__(self):
        self.outcomes = []     # (opname, args, Outcome)
        self.world = None
        self.replies = []      # (scope, length) of every server segment, in order
        self.cut_kinds = {}


def execute(ch, config):
    """Run one session under chooser ``ch``; returns a Session."""
    s = Session()
    wl = ch.wl
    with ch.scope("run"):
        version = not wl.flag("noversion", 1, 3)
        starttls = wl.flag("starttls", 1, 4)
        rsz = READ_SIZES[wl.weighted("read_size", [6, 2, 1, 1, 1, 1])]
        nops = 1 + wl.int("nops", 6)
        nscripts = wl.int("nscripts", 5)
        cfg = ServerConfig(version=version, starttls=starttls, max_script_size=12000, max_total=30000)
    world = World(ch, cfg, client_impl=config.get("client", "real"), read_size=rsz)
    s.world = world
    srv = world.server
    srv.status_variation = True
    srv.data_variation = True
    srv.order_variation = True
    srv.cap_variation = True
    with ch.scope("store"):
        for i in range(nscripts):
            nm = gen.name(wl, "name").encode()
            srv.scripts[nm] = gen.body(wl, "body")
        if srv.scripts and wl.flag("active", 1, 2):
            srv.active = wl.pick("activeidx", list(srv.scripts))
    counter = [0]

    def uniq():
        counter[0] += 1
        return b"u%d" % counter[0]

    with world:
        client = world.new_client()
        with ch.scope("op#0"):
            o = world.call(client, "connect", "user", "password", starttls=starttls)
        s.outcomes.append(("connect", (starttls,), o))
        alive = o.kind != "hang"
        srv.fault_weights = [24, 3, 1, 0, 0, 0, 0, 0]
        # in a quarter of the sessions the byte stream of one operation simply ends early (the server's reply is cut at a
        # drawn byte and the connection closed); the same object then connects again and carries on.  Where the stream
        # ends is part of the stream (same in R0 and R1) - how the bytes before the end were chunked is not.
        with ch.scope("run"):
            cut_at = 1 + wl.int("cutoff_op", nops) if wl.flag("cutoff", 1, 4) else 0
        cut_scope = [None]

        def fault_hook(conn, dec, scope):
            if cut_scope[0] is not None and scope.split(".")[0] == cut_scope[0] and not isinstance(dec, str):
                cut_scope[0] = None
                return F_TRUNC
            return None
        srv.fault_hook = fault_hook
        for i in range(1, nops + 1):
            if not alive:
                break
            with ch.scope("op#%d" % i):
                op = OPS[wl.int("op", len(OPS))]
                if op == "skip":
                    continue
                if i == cut_at:
                    cut_scope[0] = "op#%d" % i
                if op in ("capability", "listscripts"):
                    args = ()
                elif op in ("getscript", "deletescript", "setactive"):
                    args = (gen.name(wl, "name"),)
                elif op == "putscript":
                    args = (gen.name(wl, "name"), gen.body(wl, "body").decode("utf-8"))
                elif op == "checkscript":
                    args = (gen.body(wl, "body").decode("utf-8"),)
                elif op == "renamescript":
                    args = (gen.name(wl, "name"), gen.name(wl, "name2"))
                elif op == "havespace":
                    args = (gen.name(wl, "name"), [10, 100, 13000, 1 << 40][wl.int("size", 4)])
                o = world.call(client, op, *args)
            s.outcomes.append((op, args, o))
            if o.kind == "hang":
                alive = False
            if i == cut_at and alive:
                cut_scope[0] = None
                with ch.scope("recon#%d" % i):
                    o = world.call(client, "connect", "user", "password", starttls=starttls)
                s.outcomes.append(("connect", ("again",), o))
                if o.kind == "hang":
                    alive = False
        # sentinels: no forced verdicts, default shapes are still drawn
        srv.fault_weights = [1, 0, 0, 0, 0, 0, 0, 0]
        for j, (op, args) in enumerate([("havespace", ("sentinel", 5)),
                                        ("havespace", ("sentinel", 1 << 30)),
                                        ("listscripts", ())]):
            if not alive:
                break
            with ch.scope("sent#%d" % j):
                o = world.call(client, op, *args)
            s.outcomes.append((op, args, o))
            if o.kind == "hang":
                alive = False
    return s


def compare(s0, s1):
    """First difference between the reference execution s0 and s1."""
    n = max(len(s0.outcomes), len(s1.outcomes))
    for i in range(n):
        if i >= len(s0.outcomes) or i >= len(s1.outcomes):
            a = s0.outcomes[i] if i < len(s0.outcomes) else None
            b = s1.outcomes[i] if i < len(s1.outcomes) else None
            return i, a, b, "length"
        a, b = s0.outcomes[i], s1.outcomes[i]
        if a[0] != b[0] or a[1] != b[1]:
            return i, a, b, "plan"
        ka, kb = a[2].full_key(), b[2].full_key()
        if ka != kb:
            what = "outcome"
            if ka[0] == kb[0]:
                what = "errcode/errmsg" if (ka[1], ka[2]) != (kb[1], kb[2]) else "bytes written"
            return i, a, b, what
    return None


def run(ch, config, res):
    s1 = execute(ch, config)
    w1 = s1.world
    r0 = config.get("_r0")
    if r0 is None:
        ch0 = Chooser(ch.seed, tape=ch.tape, masks=set(ch.masks) | {"net"}, zero=ch.zero)
        s0 = execute(ch0, config)
    else:
        s0 = r0
    res.digest = w1.digest()
    res.sim_time = w1.clock.now + s0.world.clock.now
    st = w1.net.stats
    for k, v in st.probes.items():
        res.count("probe:" + k, v)
    for k, v in st.policy_counts.items():
        res.count("policy:" + k, v)
    res.count("recv_calls", st.recv_calls)
    res.count("recv_short", st.recv_short)
    for k, v in w1.server.fault_counts.items():
        res.count("fault:" + k, v)
    res.count("ops", len(s1.outcomes))
    res.count("read_size:%d" % w1.read_size)
    # signatures: (op, final status of its last reply, cut kinds inside that op)
    cutk = {}
    for scope, kind in w1.net.cut_log:
        cutk.setdefault(scope.split(".")[0], set()).add(kind)
    last = {}
    for rec in w1.server.log:
        last[rec.scope.split(".")[0]] = rec
    idx = 0
    for rec_scope, rec in last.items():
        ck = cutk.get(rec_scope)
        if ck:
            res.sigs.add("%s|%s|%s" % (rec.verb.decode("ascii", "replace"), (rec.status or b"-").decode(),
                                       ",".join(sorted(ck))))
    d = compare(s0, s1)
    if res.trace is not None:
        res.trace.append("== R1 (drawn schedule), read_size=%d ==" % w1.read_size)
        res.trace.extend(render_events(w1.net.events))
        res.trace.append("== R0 (net masked: every recv gets what it asked for) ==")
        res.trace.extend(render_events(s0.world.net.events))
    if d is not None:
        i, a, b, what = d
        detail = "op %d %s%r: %s differs between schedules: whole-delivery %r vs segmented %r" % (
            i, (a or b)[0], (a or b)[1], what,
            a[2] if a else None, b[2] if b else None)
        res.failure = Failure(PROP, "C05.diverge", detail, {
            "op_index": i, "what": what,
            "r0": None if a is None else [repr(x) for x in a[2].full_key()],
            "r1": None if b is None else [repr(x) for x in b[2].full_key()],
        })
    res.info["session"] = s1
    res.info["r0"] = s0


# ---------------------------------------------------------------------------
# jobs
# ---------------------------------------------------------------------------

def jobs(tier, seed, scale=1.0):
    """Job descriptions (JSON-able).  'sweep' jobs enumerate every single cut
    (and every pair of cuts for short replies) and the fixed recv sizes for one
    generated session; 'random' jobs run one session with a drawn schedule."""
    out = []
    if tier == "quick":
        nsweep, nrandom = 40, 16000
    else:
        nsweep, nrandom = 1500, 1500000
    nsweep = max(1, int(nsweep * scale))
    nrandom = max(1, int(nrandom * scale))
    for i in range(nsweep):
        out.append({"kind": "sweep", "i": i})
    B = 50
    for i in range(0, nrandom, B):
        out.append({"kind": "random", "i": i, "n": min(B, nrandom - i)})
    return out


MAX_SINGLE = 400     # replies up to this length get every single cut
MAX_PAIR = 48        # replies up to this length get every pair of cuts


def run_job(job, ctx):
    from simkit.core import run_scenario
    from simkit.chooser import hash64
    from simkit.runner import Agg, judge
    import sys
    me = sys.modules[__name__]
    agg = Agg()
    config = dict(ctx.get("config", {}))
    if job["kind"] == "random":
        for k in range(job["n"]):
            seed = hash64(ctx["seed"], PROP, "random", job["i"] + k)
            sample = job["i"] == 0 and k < 2
            r = run_scenario(me, config, seed=seed, trace=sample)
            if judge(me, agg, config, seed, r, ctx, sample=sample):
                break
        return agg
    # sweep: every single cut, every pair of cuts for short replies, every fixed size
    seed = hash64(ctx["seed"], PROP, "sweep", job["i"])
    ch0 = Chooser(seed, masks={"net"})
    s0 = execute(ch0, config)
    base = ch0.tape
    segs = list(s0.world.net.seg_log)
    cfg2 = dict(config)
    cfg2["_r0"] = s0
    variants = []
    for mode in range(1, 8):
        variants.append({"run": [["mode", 8, mode]]})
    for scope, ln in segs:
        if ln <= 1:
            continue
        if ln <= MAX_SINGLE:
            agg.counts["sweep:replies_all_single_cuts"] = agg.counts.get("sweep:replies_all_single_cuts", 0) + 1
            for c in range(1, ln):
                variants.append({"run": [["mode", 8, 0]],
                                 scope: [["policy", 5, 3], ["ncuts", 3, 0], ["cut", ln - 1, c - 1]]})
        if ln <= MAX_PAIR:
            agg.counts["sweep:replies_all_cut_pairs"] = agg.counts.get("sweep:replies_all_cut_pairs", 0) + 1
            for c1 in range(1, ln):
                for c2 in range(c1 + 1, ln):
                    variants.append({"run": [["mode", 8, 0]],
                                     scope: [["policy", 5, 3], ["ncuts", 3, 1], ["cut", ln - 1, c1 - 1],
                                             ["cut", ln - 1, c2 - 1]]})
    for v in variants:
        tape = dict(base)
        tape["net"] = v
        r = run_scenario(me, cfg2, seed=seed, tape=tape)
        if judge(me, agg, cfg2, seed, r, ctx):
            break
    return agg
