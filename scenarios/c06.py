"""C06 - every script the filter factory generates is valid and self-sufficient.

Editing histories (with restarts where only the rendered text survives) whose
definitions come from the documented condition/action forms with hostile
string values; after every step the rendering is checked by sievelib's own
parser, by an independent strict reader, and against the rendering of the
same history with every user value replaced by a benign placeholder.
"""

from collections import Counter

from simkit import sieveval
from simkit.core import Failure
from simkit.chooser import hash64
from simkit import editor as E

PROP = "C06"
LEVEL = "exploration"
BUDGET = {"quick": 150, "thorough": 900}
RULE = ("Histories of 1-10 operations (add / update / replace / disable / enable / move / remove / read-back / restart-from-text) over 4 "
        "names; every definition drawn from the documented forms (header fallback incl. list-valued names and keys, "
        "exists, size, envelope, address, body, currentdate with and without :value, true/false; fileinto/redirect with "
        ":copy/:create/:flags, reject, keep, discard, stop, set/add/removeflag, vacation with every tag) with values over an "
        "alphabet containing double quote, backslash, comma, brackets, semicolon, hash, braces, newline, non-ASCII. The value "
        "half of the quantifier is plain seeded generation; the simulator contributes the histories and the restart. "
        "Non-trivial: the set contains a value with a special character or a disabled filter or went through a restart. "
        "Distinct = (sorted condition/action kinds in the set, special-character classes present, disabled?, restarted?).")
COMPONENTS = {"real": ["sievelib.factory.FiltersSet", "sievelib.commands (serializer)", "sievelib.parser.Parser"],
              "stub": ["independent strict Sieve reader and extension table (simkit.sieveval)"]}
ASSUMPTIONS = ["a value that itself starts with a quote character is outside the claim",
               "the strict table covers exactly the commands/tags the factory can emit (frozen in simkit.sieveval)"]

NAMES = ["alpha", "beta", "gamma", "delta"]
SPECIAL = {'"': "dquote", "\\": "backslash", ",": "comma", "[": "bracket", "]": "bracket", ";": "semicolon", "#": "hash",
           "{": "brace", "}": "brace", "\n": "newline", "'": "squote"}


def special_classes(values):
    out = set()
    for v in values:
        for c in v:
            if c in SPECIAL:
                out.add(SPECIAL[c])
            elif ord(c) > 127:
                out.add("nonascii")
    return out


class MF:
    def __init__(self, name, struct, values, enabled=True):
        self.name = name
        self.struct = struct
        self.values = values
        self.enabled = enabled


def kinds_of(struct):
    conds, acts, mt = struct
    out = set()
    for c in conds:
        out.add("c:" + E.cond_kind(c) + ("!" if c[0] in E.PREFIX_NEGATED else ""))
    for a in acts:
        out.add("a:" + a[0] + ("+" + "+".join(x for x in a[1:] if isinstance(x, str) and x.startswith(":")) if any(isinstance(x, str) and x.startswith(":") for x in a[1:]) else ""))
    return out


def check_render(fs, fsb, model, label):
    from sievelib.parser import Parser
    try:
        text = str(fs)
    except Exception as e:
        return Failure(PROP, "C06.build", "%s: rendering raised %s: %s" % (label, type(e).__name__, e), {}), None
    try:
        textb = str(fsb)
    except Exception as e:
        return Failure(PROP, "C06.build", "%s: rendering (benign values) raised %s: %s" % (label, type(e).__name__, e), {}), None
    p = Parser()
    try:
        ok = p.parse(text)
    except Exception as e:
        return Failure(PROP, "C06.parser", "%s: Parser.parse raised %s: %s on\n%s" % (label, type(e).__name__, e, text), {}), text
    if not ok:
        return Failure(PROP, "C06.parser", "%s: the generated script is rejected by the parser (%s):\n%s" % (label, p.error, text), {}), text
    st = sieveval.validate(text)
    if st.errors:
        req = [e for e in st.errors if e.startswith("extensions used but not required")]
        other = [e for e in st.errors if e not in req]
        if other:
            return Failure(PROP, "C06.strict", "%s: the generated script is not strictly valid (%s):\n%s" % (label, other[0], text), {}), text
        return Failure(PROP, "C06.require", "%s: %s:\n%s" % (label, req[0], text), {}), text
    cmds = st.commands
    if st.needed and (not cmds or cmds[0].name != "require"):
        return Failure(PROP, "C06.require", "%s: the script does not begin with require:\n%s" % (label, text), {}), text
    # structure is independent of values
    try:
        skb = sieveval.skeleton(textb)
        topsb = [n for n in sieveval.parse(textb) if n.name != "require"]
    except Exception as e:
        return Failure(PROP, "C06.strict", "%s: the rendering with benign values cannot be read: %s\n%s" % (label, e, textb), {}), text
    sk = sieveval.skeleton(text)
    if sk != skb:
        # find first difference
        i = 0
        while i < min(len(sk), len(skb)) and sk[i] == skb[i]:
            i += 1
        return Failure(PROP, "C06.structure", "%s: user values changed the structure of the script: token %d is %r, with benign values %r\n%s\n--- benign ---\n%s" % (
            label, i, sk[i:i + 4], skb[i:i + 4], text, textb), {}), text
    tops = [n for n in cmds if n.name != "require"]
    if len(tops) != len(model) or len(topsb) != len(model):
        return Failure(PROP, "C06.structure", "%s: %d filters, %d top-level commands:\n%s" % (label, len(model), len(tops), text), {}), text
    for mf, node, nodeb in zip(model, tops, topsb):
        sub = {("zv%dz" % i): v for i, v in enumerate(mf.values)}
        exp = Counter(sub.get(s, s) for s in sieveval.strings_of(nodeb))
        got = Counter(sieveval.strings_of(node))
        if exp != got:
            miss = list((exp - got).elements())
            extra = list((got - exp).elements())
            return Failure(PROP, "C06.value", "%s: filter %r: supplied values %r appear in the script as %r\n%s" % (
                label, mf.name, miss, extra, text), {}), text
        # absolute, not only relative to the benign rendering: nothing that was supplied may be silently left out
        lost = list((Counter(mf.values) - got).elements())
        if lost:
            return Failure(PROP, "C06.value", "%s: filter %r: supplied values %r do not appear in the script at all\n%s" % (
                label, mf.name, lost, text), {}), text
        conds, acts, _ = E.fill(mf.struct, mf.values)
        want_tags = Counter(x for a in acts for x in a[1:] if isinstance(x, str) and x.startswith(":") and x not in mf.values)
        want_nums = Counter(str(x) for a in acts for x in a[1:] if isinstance(x, int) and not isinstance(x, bool))
        have_tags = Counter(v for nd in E.unwrap(node).walk() for k, v in nd.args if k == "tag")
        have_nums = Counter(v for nd in E.unwrap(node).walk() for k, v in nd.args if k == "num")
        if (want_tags - have_tags) or (want_nums - have_nums):
            return Failure(PROP, "C06.value", "%s: filter %r: supplied action tags/numbers %r %r are missing from the script\n%s" % (
                label, mf.name, list((want_tags - have_tags).elements()), list((want_nums - have_nums).elements()), text), {}), text
    return None, text


def run(ch, config, res):
    from sievelib.factory import FiltersSet
    wl = ch.wl
    fs = FiltersSet("test")
    fsb = FiltersSet("test")
    model = []
    failure = None
    restarted = False
    with ch.scope("run"):
        nops = 1 + wl.int("nops", 10)
    allvalues = []
    kinds = set()
    stash = [None]

    def find(n):
        for i, m in enumerate(model):
            if m.name == n:
                return i
        return -1

    i = 0
    while failure is None and i < nops:
        i += 1
        with ch.scope("op#%d" % i):
            k = wl.weighted("op", [6, 3, 2, 2, 1, 1, 1, 2, 2, 2, 2]) if model else 0
            op = ["add", "update", "replace", "disable", "enable", "move", "remove", "restart", "readback", "stash", "unstash"][k]
            n = NAMES[wl.int("name", len(NAMES))]
            label = "op %d %s(%s)" % (i, op, n)
            if wl.flag("refused_first", 1, 6):
                # before the operation proper, an add with a description the factory refuses (some are refused only after an
                # extension was noted): as a step of the history it must not disturb what is generated afterwards
                bconds_, bacts_, bmt_ = E.bad_definition(wl, "baddef")
                bn = NAMES[wl.int("badname", len(NAMES))]
                if find(bn) != -1 and wl.flag("refused_update", 1, 2):
                    # ... or an update of an existing filter (same name) that is refused: the filter keeps its content
                    rr = E.classify(lambda: fs.updatefilter(bn, bn, bconds_, bacts_, bmt_))
                    E.classify(lambda: fsb.updatefilter(bn, bn, bconds_, bacts_, bmt_))
                else:
                    rr = E.classify(lambda: (fs.addfilter(bn, bconds_, bacts_, bmt_), True)[1])
                    E.classify(lambda: (fsb.addfilter(bn, bconds_, bacts_, bmt_), True)[1])
                res.count("refused_builds")
                if rr[0] == "ok":
                    res.count("ended:unsupported-description-accepted")
                    break
            if op in ("add", "update"):
                struct, values = E.gen_definition(wl, "def", "c06")
                conds, acts, mt = E.fill(struct, values)
                bconds, bacts, _ = E.fill(struct, E.benign_values(len(values)))
                default_mt = mt == "anyof" and wl.flag("default_matchtype", 1, 2)
                n2 = NAMES[wl.int("name2", len(NAMES))] if op == "update" else None
                label += " def=%r" % ((conds, acts, mt),)
                if op == "add":
                    rc = E.classify(lambda: (fs.addfilter(n, conds, acts, mt) if not default_mt else fs.addfilter(n, conds, acts), True)[1])
                    rb = E.classify(lambda: (fsb.addfilter(n, bconds, bacts, mt) if not default_mt else fsb.addfilter(n, bconds, bacts), True)[1])
                    if rc[0] == "ok":
                        model.append(MF(n, struct, values))
                else:
                    rc = E.classify(lambda: (fs.updatefilter(n, n2, conds, acts, mt) if not default_mt else fs.updatefilter(n, n2, conds, acts)))
                    rb = E.classify(lambda: (fsb.updatefilter(n, n2, bconds, bacts, mt) if not default_mt else fsb.updatefilter(n, n2, bconds, bacts)))
                    if rc[0] == "ok":
                        m = model[find(n)]
                        m.name, m.struct, m.values = n2, struct, values
                if rc[0].startswith("raised:") or rb[0].startswith("raised:"):
                    which = rc if rc[0].startswith("raised:") else rb
                    failure = Failure(PROP, "C06.build", "%s: building a filter from a supported description raised %s: %s" % (
                        label, which[0][7:], which[2]), {"definition": repr((conds, acts, mt))})
                    break
                if rc[0] != rb[0]:
                    failure = Failure(PROP, "C06.structure", "%s: outcome %s with the real values, %s with benign ones" % (label, rc[0], rb[0]), {})
                    break
                if rc[0] == "ok":
                    allvalues.extend(values)
                    kinds |= kinds_of(struct)
            elif op == "replace":
                src = NAMES[wl.int("src", len(NAMES))]
                c, cb = fs.getfilter(src), fsb.getfilter(src)
                if c is None or cb is None:
                    continue
                rc = E.classify(lambda: fs.replacefilter(n, c))
                E.classify(lambda: fsb.replacefilter(n, cb))
                if rc[0] == "ok":
                    s = model[find(src)]
                    m = model[find(n)]
                    m.struct, m.values = s.struct, s.values
            elif op == "disable":
                rc = E.classify(lambda: fs.disablefilter(n))
                E.classify(lambda: fsb.disablefilter(n))
                if find(n) != -1:
                    model[find(n)].enabled = False
            elif op == "enable":
                rc = E.classify(lambda: fs.enablefilter(n))
                E.classify(lambda: fsb.enablefilter(n))
                if find(n) != -1:
                    model[find(n)].enabled = True
            elif op == "move":
                d = ["up", "down"][wl.int("dir", 2)]
                rc = E.classify(lambda: fs.movefilter(n, d))
                E.classify(lambda: fsb.movefilter(n, d))
                if rc[0] == "ok":
                    j = find(n)
                    m = model.pop(j)
                    model.insert(j - 1 if d == "up" else j + 1, m)
            elif op == "remove":
                rc = E.classify(lambda: fs.removefilter(n))
                E.classify(lambda: fsb.removefilter(n))
                if rc[0] == "ok":
                    del model[find(n)]
            elif op == "stash":
                # keep the object getfilter() returns, to put it back later (an "undo")
                c, cb = fs.getfilter(n), fsb.getfilter(n)
                if c is not None and cb is not None:
                    m = model[find(n)]
                    stash[0] = (c, cb, m.struct, m.values)
                continue
            elif op == "unstash":
                if stash[0] is None or find(n) == -1:
                    continue
                c, cb, st_struct, st_values = stash[0]
                rc = E.classify(lambda: fs.replacefilter(n, c))
                E.classify(lambda: fsb.replacefilter(n, cb))
                if rc[0] == "ok":
                    m = model[find(n)]
                    m.struct, m.values = st_struct, st_values
                res.count("undo_replacements")
            elif op == "readback":
                # reading a filter back is not supposed to change what is generated afterwards
                for getter in ("get_filter_conditions", "get_filter_actions", "get_filter_matchtype", "getfilter", "is_filter_disabled"):
                    for target in (fs, fsb):
                        try:
                            getattr(target, getter)(n)
                        except Exception:
                            pass
                res.count("readbacks")
            elif op == "restart":
                f2, text, err = E.restart_local(fs)
                fb2, textb, errb = E.restart_local(fsb)
                if f2 is None or fb2 is None:
                    failure = Failure(PROP, "C06.parser", "%s: the generated script is rejected by the parser (%s):\n%s" % (label, err or errb, text), {})
                    break
                fs, fsb = f2, fb2
                stash[0] = None
                restarted = True
                res.count("restarts")
        failure, text = check_render(fs, fsb, model, label)
    res.digest = "%016x" % hash64(str(i), repr([(m.name, m.values) for m in model]))
    res.count("ops", i)
    cl = special_classes(allvalues)
    dis = any(not m.enabled for m in model)
    if cl or dis or restarted:
        res.sigs.add("%s|%s|%s|%s" % (",".join(sorted(kinds)), ",".join(sorted(cl)), dis, restarted))
    if res.trace is not None:
        try:
            res.trace.append(str(fs))
        except Exception as e:
            res.trace.append("render raised %r" % e)
    res.failure = failure


def jobs(tier, seed, scale=1.0):
    n = int((20000 if tier == "quick" else 2000000) * scale)
    B = 100
    return [{"kind": "random", "i": i, "n": min(B, n - i)} for i in range(0, n, B)]


def run_job(job, ctx):
    import sys
    from simkit.core import run_scenario
    from simkit.runner import Agg, judge
    me = sys.modules[__name__]
    agg = Agg()
    base = dict(ctx.get("config", {}))
    for k in range(job["n"]):
        seed = hash64(ctx["seed"], PROP, "random", job["i"] + k)
        sample = job["i"] == 0 and k < 2
        r = run_scenario(me, base, seed=seed, trace=sample)
        if judge(me, agg, base, seed, r, ctx, sample=sample):
            break
    return agg
