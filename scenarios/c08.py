"""C08 - each client call puts exactly one well-formed command on the wire.

The peer is the oracle: the reference server's strict RFC 5804 command decoder
reads what the client wrote; decoded arguments must equal the caller's values.
"""

from simkit import gen
from simkit.core import Failure
from simkit.chooser import hash64
from simkit.mserver import ServerConfig
from simkit.world import World
from simkit.tracefmt import render_events

PROP = "C08"
LEVEL = "exploration"
BUDGET = {"quick": 120, "thorough": 900}
RULE = ("Authenticated sessions of 1-8 calls; operation and arguments drawn from generators biased to what breaks framing "
        "(double quote, backslash, CR, LF, CRLF, NUL, braces, {n}/{n+} look-alikes, verbs, empty string, 2/3/4-byte "
        "characters, long values, sizes 0..2^40). After every call the server-side strict decoder's view of the bytes is "
        "compared with the caller's values. Non-trivial: at least one argument needed escaping / a literal / was a "
        "look-alike. Distinct = (operation, sorted set of character classes present in the arguments). A stratified sweep puts "
        "script bodies and names of every size within 48 octets below / 2 above 1024, 4096, 8192, 65536 and 131072 on the wire.")
COMPONENTS = {"real": ["sievelib.managesieve.Client"],
              "stub": ["socket/ssl modules (simkit.net)", "ManageSieve server with strict command decoder (simkit.mserver, simkit.wire)"]}
ASSUMPTIONS = ["our reading of the RFC 5804 command ABNF (DESIGN.md appendix A)",
               "values are UTF-8-encodable text and non-negative integers (the property's domain)"]

CLASSES = [
    "abcdefghijklmnopqrstuvwxyz0123456789",  # 0 plain
    '"',                                       # 1 dquote
    "\\",                                      # 2 backslash
    "\r\n",                                    # 3 CR / LF
    "\0",                                      # 4 NUL
    "{}+",                                     # 5 braces
    " \t",                                     # 6 blanks
    "éü߀日本𝔘 ",                        # 7 multi-byte (2,3,4 bytes)
    "();,#:'*%",                               # 8 other punctuation
    gen.UNICODE_ODDITIES,                      # 9 characters text-handling code tends to special-case
]
CLASS_NAMES = ["plain", "dquote", "backslash", "crlf", "nul", "brace", "blank", "multibyte", "punct", "oddity"]
WHOLE = ["", "{5}", "{5+}", "{0}", "{0+}", "LOGOUT", 'a" "b', 'x"\r\nLOGOUT\r\n"', "a\\", '\\"', "{3+}\r\nabc",
         "ACTIVE", "{99999999999}", " ", '"', "\\", "\r", "\n", "\r\n", "{", "a{1}", '""', "{1+}\r\n",
         # values that cannot be encoded at all (lone surrogates): the call has to refuse them, with Error, before writing
         "\udc80", "a\ud800b"]
OPS = ["skip", "havespace", "getscript", "putscript", "deletescript", "setactive", "renamescript", "checkscript",
       "putscript", "getscript", "capability", "listscripts", "logout", "reconnect"]


def value(f, label, maxlen=12, earlier=None):
    kind = f.weighted(label + ".kind", [4, 3, 1, 2 if earlier else 0])
    if kind == 3:
        # derived from a value used earlier in the same session: what it would look like once encoded, quoted,
        # escaped ... (caches keyed by the wrong thing, state shared between arguments)
        base = earlier[f.int(label + ".which", len(earlier))]
        t = f.int(label + ".derive", 7)
        if t == 0:
            return "{%d+}\r\n%s" % (len(base.encode("utf-8")), base)
        if t == 1:
            return '"%s"' % base
        if t == 2:
            return base.replace("\\", "\\\\").replace('"', '\\"')
        if t == 3:
            return "{%d}" % len(base.encode("utf-8"))
        if t == 4:
            return base + "\r\n"
        if t == 5:
            return base.swapcase()
        return base
    if kind == 1:
        return WHOLE[f.int(label + ".whole", len(WHOLE))]
    if kind == 2:
        base = f.text(label + ".txt", CLASSES, 6)
        return base * (1 + f.int(label + ".rep", 300))
    return f.text(label + ".txt", CLASSES, maxlen, 0)


class HugeInt(int):
    """An int like any other for the library (str() / '%d' go through int's own conversion and hit CPython's digit limit),
    with a repr short enough for our own traces."""

    def __repr__(self):
        return "HugeInt(10**5000)"

    __str__ = int.__repr__


HUGE = HugeInt(10 ** 5000)


def encodable(a):
    if isinstance(a, str):
        try:
            a.encode("utf-8")
        except UnicodeEncodeError:
            return False
    if isinstance(a, HugeInt):
        return False        # CPython refuses to write such a number in decimal
    return True


def classes_of(vals):
    out = set()
    for v in vals:
        if not isinstance(v, str):
            continue
        if v == "":
            out.add("empty")
        for i, cls in enumerate(CLASSES[1:], 1):
            if any(c in cls for c in v):
                out.add(CLASS_NAMES[i])
        if v in WHOLE and v:
            out.add("lookalike")
        if len(v) > 1024:
            out.add("long")
    return out


def judge_call(world, srv, meth, args, out, emulated=False):
    cid = out.call_id
    written = b"".join(w[3] for w in out.writes)
    viol = [v for v in srv.violations if v[1] == cid]
    recs = [r for r in srv.log if r.call_id == cid]
    conn = world.net.conns[-1] if world.net.conns else None
    pending = srv.pending_input(conn) if conn is not None and conn.state is not None else b""
    info = {"op": meth, "args": [repr(a) for a in args], "written": written}
    if any(not encodable(a) for a in args):
        if written:
            return Failure(PROP, "C08.refuse-after-write", "%s%r has an argument that cannot be encoded, yet %r was written" % (meth, args, written), info)
        if meth == "checkscript" and out.kind == "exc" and out.exc_type == "NotImplementedError":
            return None     # refused for another reason, before looking at the argument
        if not (out.kind == "exc" and out.exc_type == "Error"):
            return Failure(PROP, "C08.exception", "%s%r has an argument that cannot be encoded: the call %r (Error expected, nothing written)" % (meth, args, out), info)
        return None
    if out.kind == "exc" and out.exc_type != "Error":
        if not (meth == "checkscript" and out.exc_type == "NotImplementedError"):
            return Failure(PROP, "C08.exception", "%s%r raised %s(%r) (bytes written: %r)" % (
                meth, args, out.exc_type, out.exc_msg, written), info)
    if viol:
        return Failure(PROP, "C08.malformed", "%s%r wrote %r which the strict decoder rejects: %s" % (
            meth, args, written, viol[0][2]), info)
    if pending:
        return Failure(PROP, "C08.malformed", "%s%r wrote %r; the decoder is left with an incomplete command %r" % (
            meth, args, written, pending), info)
    server_caused = any(r.status in (b"BYE", None) for r in recs)
    if out.kind == "exc" and out.exc_type == "Error" and not server_caused and written:
        # a refusal must happen before anything is written
        if not recs or all(r.status in (b"OK", b"NO") for r in recs):
            return Failure(PROP, "C08.refuse-after-write", "%s%r raised Error(%r) after writing %r" % (
                meth, args, out.exc_msg, written), info)
    if out.kind == "hang":
        return Failure(PROP, "C08.malformed", "%s%r wrote %r and never got an answer (the peer is still waiting for the rest of a command)" % (
            meth, args, written), info)
    if not written:
        return None
    cmds = [r for r in recs if r.decoded is not None]
    verb = meth.upper().encode()
    if not emulated:
        if len(cmds) != 1:
            return Failure(PROP, "C08.count", "%s%r put %d commands on the wire: %r" % (
                meth, args, len(cmds), [c.raw for c in cmds]), info)
        dec = cmds[0].decoded
        if dec.verb != verb:
            return Failure(PROP, "C08.verb", "%s%r sent verb %r" % (meth, args, dec.verb), info)
        exp = [a.encode("utf-8") if isinstance(a, str) else a for a in args]
        if meth == "havespace" and isinstance(args[1], str):
            exp[1] = int(args[1])
        if dec.args != exp:
            clause = "C08.value"
            return Failure(PROP, clause, "%s%r: the server decodes arguments %r from %r" % (
                meth, args, dec.args, dec.raw), info)
        for j, (a, k) in enumerate(zip(args, dec.kinds)):
            if (isinstance(a, int) or (meth == "havespace" and j == 1)) and k != "n":
                return Failure(PROP, "C08.value", "%s%r: number sent as a string in %r" % (meth, args, dec.raw), info)
    else:
        # any order and any number of the script-management commands an emulation may reasonably use; RENAMESCRIPT
        # itself, authentication or logout do not belong to it
        allowed = (b"LISTSCRIPTS", b"GETSCRIPT", b"PUTSCRIPT", b"SETACTIVE", b"DELETESCRIPT", b"HAVESPACE", b"CHECKSCRIPT",
                   b"CAPABILITY", b"NOOP")
        verbs = [c.decoded.verb for c in cmds]
        if any(v not in allowed for v in verbs):
            return Failure(PROP, "C08.verb", "emulated rename%r sent %r" % (args, verbs), info)
        old, new = (a.encode("utf-8") for a in args)
        for c in cmds:
            d = c.decoded
            if d.verb == b"DELETESCRIPT" and d.args in ([new],):
                continue      # an emulation may remove its own copy again when a later step is refused
            if d.verb in (b"GETSCRIPT", b"DELETESCRIPT") and d.args != [old]:
                return Failure(PROP, "C08.value", "emulated rename%r: %s decodes to %r" % (args, d.verb.decode(), d.args), info)
            if d.verb in (b"SETACTIVE",) and d.args not in ([new], [old], [b""]):
                return Failure(PROP, "C08.value", "emulated rename%r: SETACTIVE decodes to %r" % (args, d.args), info)
            if d.verb == b"PUTSCRIPT" and d.args[0] != new:
                return Failure(PROP, "C08.value", "emulated rename%r: PUTSCRIPT decodes to %r" % (args, d.args), info)
    return None


BOUNDARIES = (1024, 4096, 8192, 65536, 131072)


def sweep_cases():
    """Stratified: argument sizes that make the encoded command (or the argument itself) land on and around
    power-of-two boundaries."""
    out = []
    for T in BOUNDARIES:
        for n in range(T - 48, T + 3):
            out.append(("putscript", "big", n, ""))
            out.append(("checkscript", None, n, ""))
    for T in (1024, 4096):
        for n in range(T - 24, T + 3):
            for tail in ("", '"', "\\", "é"):
                out.append(("getscript", None, n, tail))
    return out


def run_sweep(ch, config, res, case):
    meth, name, n, tail = case
    cfg = ServerConfig(version=True, max_scripts=50, max_script_size=1 << 22, max_total=1 << 24)
    world = World(ch, cfg, client_impl=config.get("client", "real"))
    srv = world.server
    srv.data_variation = False
    failure = None
    with world:
        client = world.new_client()
        with ch.scope("op#0"):
            o = world.call(client, "connect", "user", "password")
        if o.kind == "ret" and o.value is True:
            body = "x" * max(0, n - len(tail)) + tail
            if meth == "putscript":
                args = (name, body)
            elif meth == "checkscript":
                args = (body,)
            else:
                args = (body,)
            with ch.scope("op#1"):
                o = world.call(client, meth, *args)
            failure = judge_call(world, srv, meth, args, o)
            if failure is None:
                # the next command must still be framed correctly
                with ch.scope("op#2"):
                    o = world.call(client, "havespace", "after", 1)
                failure = judge_call(world, srv, "havespace", ("after", 1), o)
    res.digest = world.digest()
    res.count("sweep_cases")
    res.sigs.add("sweep|%s|%d|%s" % (meth, n, tail))
    if res.trace is not None:
        res.trace.append("sweep case %r" % (case,))
    if failure is not None:
        failure.detail = failure.detail[:600]
    res.failure = failure


def run(ch, config, res):
    wl = ch.wl
    if config.get("sweep") is not None:
        return run_sweep(ch, config, res, sweep_cases()[config["sweep"]])
    with ch.scope("run"):
        version = not wl.flag("noversion", 1, 4)
        ncalls = 1 + wl.int("ncalls", 8)
    cfg = ServerConfig(version=version, max_scripts=50, max_script_size=1 << 22, max_total=1 << 24)
    world = World(ch, cfg, client_impl=config.get("client", "real"))
    srv = world.server
    srv.data_variation = False
    srv.scripts[b"alpha"] = b"keep;\r\n"
    srv.scripts[b"beta"] = b"stop;\r\n"
    srv.active = b"beta"
    failure = None
    used = []
    world.net.sendall_faults = True
    with world:
        client = world.new_client()
        with ch.scope("op#0"):
            o = world.call(client, "connect", "user", "password")
        failure = judge_connect(world, srv, o)
        if failure is None and o.kind == "ret" and o.value is True:
            for i in range(1, ncalls + 1):
                with ch.scope("op#%d" % i):
                    meth = OPS[wl.int("op", len(OPS))]
                    if meth == "skip":
                        continue
                    if meth == "havespace":
                        # the size as an int or as its decimal spelling: either way a number goes on the wire
                        sz = [0, 1, 1000, 4294967296, 1 << 40, "1000", "0", "00300", HUGE][wl.int("size", 9)]
                        args = (value(wl, "name", earlier=used), sz)
                    elif meth in ("getscript", "deletescript", "setactive"):
                        args = (value(wl, "name", earlier=used),)
                    elif meth == "putscript":
                        args = (value(wl, "name", earlier=used), value(wl, "content", 40, earlier=used))
                    elif meth == "checkscript":
                        args = (value(wl, "content", 40, earlier=used),)
                    elif meth in ("capability", "listscripts", "logout"):
                        args = ()
                    elif meth == "reconnect":
                        o = world.call(client, "connect", "user", "password")
                        failure = judge_connect(world, srv, o)
                        res.count("reconnects")
                        if failure is not None or not (o.kind == "ret" and o.value is True):
                            break
                        continue
                    elif meth == "renamescript":
                        if version:
                            args = (value(wl, "name", earlier=used), value(wl, "name2", earlier=used))
                        else:
                            # emulated: old must exist for anything to be sent beyond LISTSCRIPTS
                            args = (["alpha", "beta"][wl.int("old", 2)], value(wl, "name2", earlier=used))
                    # one command in eight is refused by the server whatever it says (what a refusal makes the client
                    # write next - roll-backs, retries - must be well-formed too)
                    srv.fault_weights = [7, 1, 0, 0, 0, 0, 0, 0]
                    faults_before = world.net.stats.probes.get("sendall_timeout", 0)
                    used.extend(a for a in args if isinstance(a, str) and len(a) < 200 and encodable(a))
                    if getattr(client, "sock", None) is None:
                        # the client has given up its connection (some do after a failed step): what it does when asked to
                        # talk without one is not this property's business
                        res.count("ended:client-dropped-its-connection")
                        break
                    o = world.call(client, meth, *args)
                if world.net.stats.probes.get("sendall_timeout", 0) > faults_before:
                    # injected fault: a sendall of this call timed out before writing anything; the call's own outcome
                    # is unconstrained (what it wrote before the fault must still decode), the *next* calls are judged as usual
                    res.count("fault:sendall-timeout")
                    viol = [v for v in srv.violations if v[1] == o.call_id]
                    if viol:
                        failure = Failure(PROP, "C08.malformed", "%s%r wrote bytes the strict decoder rejects: %s %r" % (meth, args, viol[0][2], viol[0][3]), {})
                        break
                    if o.kind == "hang":
                        break
                    if o.writes:
                        # a client that writes a command in several pieces was interrupted between two of them: the stream
                        # is cut inside a command and nothing sensible can follow on this connection (no verdict)
                        res.count("ended:send-fault-inside-a-command")
                        break
                    continue
                emu = meth == "renamescript" and not version
                cl = classes_of(args)
                if cl:
                    res.sigs.add("%s|%s" % (meth, ",".join(sorted(cl))))
                res.count("calls")
                failure = judge_call(world, srv, meth, args, o, emulated=emu)
                if failure is not None or o.kind != "ret" or meth == "logout":
                    break
    res.digest = world.digest()
    res.sim_time = world.clock.now
    if res.trace is not None:
        res.trace.extend(render_events(world.net.events))
    res.failure = failure


def judge_connect(world, srv, o):
    viol = [v for v in srv.violations if v[1] == o.call_id]
    if viol:
        return Failure(PROP, "C08.malformed", "connect wrote bytes the strict decoder rejects: %s %r" % (viol[0][2], viol[0][3]), {})
    verbs = [r.decoded.verb for r in srv.log if r.call_id == o.call_id and r.decoded is not None]
    if any(v not in (b"STARTTLS", b"AUTHENTICATE", b"CAPABILITY", b"NOOP", b"LOGOUT") for v in verbs):
        return Failure(PROP, "C08.verb", "connect put %r on the wire (only STARTTLS / AUTHENTICATE / CAPABILITY / NOOP, and a LOGOUT on the way out, belong to a handshake)" % (verbs,), {})
    return None


def jobs(tier, seed, scale=1.0):
    n = int((30000 if tier == "quick" else 3000000) * scale)
    B = 200
    out = []
    ns = len(sweep_cases())
    for i in range(0, ns, 40):
        out.append({"kind": "sweep", "lo": i, "hi": min(ns, i + 40)})
    return out + [{"kind": "random", "i": i, "n": min(B, n - i)} for i in range(0, n, B)]


def run_job(job, ctx):
    import sys
    from simkit.core import run_scenario
    from simkit.runner import Agg, judge
    me = sys.modules[__name__]
    agg = Agg()
    base = dict(ctx.get("config", {}))
    if job["kind"] == "sweep":
        for i in range(job["lo"], job["hi"]):
            config = dict(base)
            config["sweep"] = i
            seed = hash64(ctx["seed"], PROP, "sweep", i)
            r = run_scenario(me, config, seed=seed)
            if judge(me, agg, config, seed, r, ctx):
                break
        return agg
    for k in range(job["n"]):
        seed = hash64(ctx["seed"], PROP, "random", job["i"] + k)
        sample = job["i"] == 0 and k < 2
        r = run_scenario(me, base, seed=seed, trace=sample)
        if judge(me, agg, base, seed, r, ctx, sample=sample):
            break
    return agg
