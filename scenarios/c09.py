"""C09 - operation results mirror the server's status reply.

For every operation the reference server's final status (or the status at
step k of a multi-step operation) is forced to as-computed / NO / BYE and the
reply is rendered in every shape RFC 5804 allows.  Oracle: from the server's
ground-truth log of the replies it actually sent for this call.
"""

from simkit import gen, wire
from simkit.core import Failure
from simkit.chooser import hash64
from simkit.mserver import ServerConfig, F_NO, F_BYE, F_NONE, TEXT_POOL
from simkit.world import World
from simkit.tracefmt import render_events

PROP = "C09"
LEVEL = "exploration"
BUDGET = {"quick": 150, "thorough": 900}
RULE = ("Grid: operation x step (for connect / STARTTLS connect / emulated rename) x forced verdict (as computed, NO, BYE) x "
        "response-code shape (none, each RFC 5804 code, QUOTA/MAXSIZE, parameterised TAG/SASL/REFERRAL) x text shape "
        "(none, empty, plain, escapes, look-alikes, non-ASCII, multi-line) x text as quoted/literal, enumerated by "
        "stratified seeds; then random sessions with drawn verdict faults, shapes and recv segmentation. Non-trivial: the "
        "reply was not a plain 'OK \"text\"'. Distinct = (operation, step, status, code class, text class, literal?).")
COMPONENTS = {"real": ["sievelib.managesieve.Client"],
              "stub": ["socket/ssl modules (simkit.net)", "ManageSieve server (simkit.mserver)"]}
ASSUMPTIONS = ["status atoms are upper-case; the server only emits what the RFC 5804 ABNF allows (self-checked by an independent response reader)"]

SIMPLE_OPS = ["capability", "havespace", "listscripts", "getscript", "putscript", "checkscript",
              "deletescript", "renamescript", "setactive"]

# (op label, step label) pairs of the grid
CELLS_OPS = [(op, None) for op in SIMPLE_OPS] + [
    ("connect", "<greeting>"), ("connect", b"AUTHENTICATE"), ("connect", "<auth-verdict>"),
    ("connect-tls", "<greeting>"), ("connect-tls", b"STARTTLS"), ("connect-tls", "<post-tls-caps>"),
    ("connect-tls", b"AUTHENTICATE"), ("connect-tls", "<auth-verdict>"),
    ("connect-login", "<auth-verdict>"), ("connect-oauth", "<auth-verdict>"),
    ("rename-emu", b"LISTSCRIPTS"), ("rename-emu", b"GETSCRIPT"), ("rename-emu", b"PUTSCRIPT"),
    ("rename-emu", b"SETACTIVE"), ("rename-emu", b"DELETESCRIPT"),
]
CODES_NO = [None] + [(c, None) for c in wire.RESP_CODES_PLAIN] + [(b"TAG", b"x"), (b"SASL", b"abc="), (b"REFERRAL", b"sieve://h/"),
                                                                    (b"TAG", b"T" * 1024), (b"TAG", b'5\" floppy \\ (x)')]
CODES_OK = [None, (b"WARNINGS", None), (b"TAG", b"x"), (b"SASL", b"cnNwYXV0aD0x")]
TEXTS = [None] + TEXT_POOL


def all_cells():
    cells = []
    for op, step in CELLS_OPS:
        for verdict in ("as", "NO", "BYE"):
            codes = CODES_OK if verdict == "as" else CODES_NO
            for ci in range(len(codes)):
                for ti in range(len(TEXTS)):
                    for lit in (False, True):
                        if TEXTS[ti] is None and lit:
                            continue
                        cells.append((op, step, verdict, ci, ti, lit))
    return cells


def expected_success(op):
    return op


def norm(x):
    if x is None:
        return ""
    if isinstance(x, (bytes, bytearray)):
        return bytes(x).decode("utf-8", "replace")
    return str(x)


def code_forms(code):
    if code is None:
        return None
    name, param = code
    forms = {name.decode()}
    if param is not None:
        forms.add(name.decode() + " " + wire.quote(param).decode("utf-8", "replace"))
        forms.add(name.decode() + " " + param.decode("utf-8", "replace"))
    return forms


def judge_call(opname, out, recs, truth=None):
    """Oracle for one client call.  recs: server records of this call in order.
    Returns Failure | None."""
    if opname in ("logout",):
        return None
    # replies to bytes that did not decode as a command are C08/C15's business
    recs = [r for r in recs if r.verb != b"<malformed>"]
    # a LOGOUT some clients send on their way out of a failed operation is a courtesy, whatever it is answered with
    if len(recs) > 1:
        recs = [r for r in recs if r.verb != b"LOGOUT"] or recs
    if not recs:
        return None    # nothing was said by the server (client-side refusal): outside the mapping
    statuses = [r.status for r in recs]
    last = recs[-1]
    if any(s == b"BYE" for s in statuses):
        if not (out.kind == "exc" and out.exc_type == "Error"):
            return Failure(PROP, "C09.bye", "%s: server said BYE (%r) but the call %r instead of raising Error" % (
                opname, _raw(recs, b"BYE"), out), {"op": opname})
        return None
    if last.status != b"NO" and any(st == b"NO" for st in statuses) and out.kind == "ret" and (out.value is False or out.value is None):
        # a multi-step operation that was refused at one step and went on talking (tidying up) before reporting the
        # failure: errcode / errmsg still have to be those of the refusal
        last = [r for r in recs if r.status == b"NO"][-1]
    if last.status == b"NO":
        nonreply = last.verb in (b"<greeting>", b"<post-tls-caps>")
        if nonreply and out.kind == "exc" and out.exc_type == "Error":
            return None
        if out.kind != "ret" or not (out.value is False or out.value is None):
            return Failure(PROP, "C09.no", "%s: final reply was %r but the call %r (False/None expected)" % (
                opname, last.raw, out), {"op": opname, "reply": last.raw})
        if nonreply:
            return None
        # a call may have been told NO more than once (the refusal proper, then a tidy-up command refused as well): which
        # of them the client reports is its choice, as long as code and text are those of one and the same refusal
        others = [r for r in recs if r.status == b"NO" and r is not last and r.verb not in (b"<greeting>", b"<post-tls-caps>")]
        for r in others:
            f2 = code_forms(r.reply.code)
            if ((f2 is None and not norm(out.errcode)) or (f2 is not None and norm(out.errcode) in f2)) and norm(r.reply.text) == norm(out.errmsg):
                return None
        rep = last.reply
        forms = code_forms(rep.code)
        got = norm(out.errcode)
        if forms is None:
            if got:
                return Failure(PROP, "C09.errcode", "%s: reply %r has no response code but errcode=%r" % (
                    opname, last.raw, out.errcode), {"op": opname, "reply": last.raw})
        elif got not in forms:
            return Failure(PROP, "C09.errcode", "%s: reply %r carries code %r but errcode=%r" % (
                opname, last.raw, rep.code, out.errcode), {"op": opname, "reply": last.raw})
        exp = norm(rep.text)
        gotm = norm(out.errmsg)
        if exp != gotm:
            return Failure(PROP, "C09.errmsg", "%s: reply %r carries text %r but errmsg=%r" % (
                opname, last.raw, rep.text, out.errmsg), {"op": opname, "reply": last.raw})
        return None
    if last.status == b"OK" and all(s in (b"OK", None) for s in statuses):
        if truth is not None and truth.get("client_side_false"):
            return None
        ok = False
        if out.kind == "ret":
            v = out.value
            if opname in ("listscripts",):
                ok = isinstance(v, tuple)
            elif opname == "getscript":
                ok = isinstance(v, str)
            elif opname == "capability":
                ok = v is not None and v is not False
            else:
                ok = v is True
        if not ok:
            return Failure(PROP, "C09.ok", "%s: every reply was OK (last %r) but the call %r" % (opname, last.raw, out),
                           {"op": opname, "reply": last.raw})
    return None


def _raw(recs, status):
    for r in recs:
        if r.status == status:
            return r.raw
    return None


def run(ch, config, res):
    cell = config.get("cell")
    wl = ch.wl
    with ch.scope("run"):
        rsz = [4096, 1, 7, 64][wl.weighted("read_size", [6, 1, 1, 1])]
    if cell is not None:
        op, step, verdict, ci, ti, lit = cell
    else:
        op = step = verdict = None
    version = True
    starttls = False
    sasl = ["PLAIN"]
    if op == "rename-emu":
        version = False
    elif op == "connect-tls":
        starttls = True
    elif op == "connect-login":
        sasl = ["LOGIN"]
    elif op == "connect-oauth":
        sasl = ["OAUTHBEARER"]
    elif cell is None:
        with ch.scope("run"):
            version = not wl.flag("noversion", 1, 3)
            starttls = wl.flag("starttls", 1, 4)
            sasl = [wl.pick("mech", ["PLAIN", "LOGIN", "OAUTHBEARER", "DIGEST-MD5"])]
    cfg = ServerConfig(version=version, starttls=starttls, sasl_pre=sasl, max_script_size=5000)
    world = World(ch, cfg, client_impl=config.get("client", "real"), read_size=rsz)
    srv = world.server
    authz = ""
    if cell is None:
        # random sessions: the server calls itself one of many things; the session may be opened with an authorisation
        # id (also one that repeats the login); DIGEST-MD5's final data travels in a challenge or in the OK
        srv.cap_variation = True
        with ch.scope("run"):
            if sasl[0] in ("PLAIN", "DIGEST-MD5"):
                authz = ["", "", "admin", "user"][wl.int("authz", 4)]
        with ch.scope("srvcfg"):
            srv.digest_final_in_ok = ch.srv.flag("digest_final_in_ok", 1, 2)
    srv.data_variation = False
    srv.scripts[b"alpha"] = b"# a\r\nkeep;\r\n"
    srv.scripts[b"beta"] = b"# b\r\nkeep;\r\n"
    srv.scripts[b"gamma"] = b"# c\r\nkeep;\r\n"
    srv.active = b"beta"
    target_call = [None]
    fired = [False]

    def shape_for(status):
        codes = CODES_OK if status == b"OK" else CODES_NO
        return codes[ci % len(codes)], TEXTS[ti], lit

    if cell is not None:
        def fault_hook(conn, dec, scope):
            if world.net.call_id != target_call[0] or fired[0]:
                return F_NONE
            verb = dec if isinstance(dec, str) else dec.verb
            tgt = step
            if tgt is None or verb == tgt:
                fired[0] = scope
                return {"as": F_NONE, "NO": F_NO, "BYE": F_BYE}[verdict]
            return F_NONE

        shaped = [False]

        def shape_hook(status, code, text, scope):
            if world.net.call_id != target_call[0] or not fired[0] or shaped[0]:
                return None
            shaped[0] = True
            if verdict == "as":
                # keep the computed status (and a computed code of a NO); vary the shape
                c, t, l = shape_for(status)
                if status != b"OK":
                    c = code
                return c, t, l
            return shape_for(status)

        def greet_hook(conn):
            if step == "<greeting>" and world.net.call_id == target_call[0] and verdict != "as":
                fired[0] = True
                return {"NO": "no", "BYE": "bye"}[verdict]
            return None

        def post_hook(conn):
            if step == "<post-tls-caps>" and world.net.call_id == target_call[0] and verdict != "as":
                fired[0] = True
                return {"NO": "no", "BYE": "bye"}[verdict]
            return None

        srv.fault_hook = fault_hook
        srv.shape_hook = shape_hook
        srv.greeting_hook = greet_hook
        srv.postcaps_hook = post_hook
    else:
        srv.status_variation = True

    failure = None
    calls = []
    with world:
        client = world.new_client()
        is_connect_cell = op is not None and op.startswith("connect")
        if is_connect_cell:
            target_call[0] = world._calls + 1
        elif cell is None:
            srv.fault_weights = [10, 2, 1, 0, 0, 0, 0, 0]
        mech = {"connect-login": "LOGIN", "connect-oauth": "OAUTHBEARER"}.get(op)
        with ch.scope("op#0"):
            kw = {"authz_id": authz} if authz else {}
            o = world.call(client, "connect", "user", "password", starttls=starttls, authmech=mech, **kw)
        recs = [r for r in srv.log if r.call_id == o.call_id]
        calls.append(("connect", o))
        failure = judge_call("connect", o, recs)
        alive = o.kind == "ret" and o.value is True
        if failure is None and alive and not is_connect_cell:
            if cell is not None:
                plan = [op]
            else:
                with ch.scope("plan"):
                    plan = [wl.pick("op%d" % i, SIMPLE_OPS) for i in range(1 + wl.int("nops", 4))]
            for i, opname in enumerate(plan, 1):
                with ch.scope("op#%d" % i):
                    truth = {}
                    meth = opname
                    if opname == "rename-emu":
                        meth = "renamescript"
                        args = ("beta", "delta") if (cell is None or step == b"SETACTIVE" or wl.flag("active", 1, 2)) else ("alpha", "delta")
                    elif opname == "capability" or opname == "listscripts":
                        args = ()
                    elif opname == "havespace":
                        args = (gen.name(wl, "name"), [10, 100000][wl.int("size", 2)])
                    elif opname in ("getscript", "deletescript", "setactive"):
                        args = (gen.name(wl, "name"),)
                        if opname == "setactive" and wl.flag("deactivate", 1, 3):
                            args = ("",)       # SETACTIVE "" = deactivate: a refusal of that is a refusal like any other
                    elif opname == "putscript":
                        args = (gen.name(wl, "name"), ["keep;\r\n", "INVALID\r\n"][wl.int("valid", 2)])
                    elif opname == "checkscript":
                        args = (["keep;\r\n", "INVALID\r\n"][wl.int("valid", 2)],)
                    elif opname == "renamescript":
                        args = (gen.name(wl, "name"), gen.name(wl, "name2"))
                    if meth == "renamescript" and not version:
                        old, new = args
                        if old.encode() not in srv.scripts or new.encode() in srv.scripts:
                            truth["client_side_false"] = True
                    if meth == "checkscript" and not version:
                        continue
                    target_call[0] = world._calls + 1
                    o = world.call(client, meth, *args)
                recs = [r for r in srv.log if r.call_id == o.call_id]
                calls.append((meth, o))
                failure = judge_call(meth, o, recs, truth)
                if failure is not None or o.kind != "ret":
                    break
                if any(r.status == b"BYE" for r in recs):
                    break
    res.digest = world.digest()
    res.sim_time = world.clock.now
    for k, v in srv.fault_counts.items():
        res.count("fault:" + k, v)
    shapes = []
    for k, v in srv.shape_counts.items():
        st, code, text = k
        if code is not None or text is None or text != "t" or st != b"OK":
            shapes.append("%s/%s/%s" % (st.decode(), code, text))
        res.count("shape:%s" % st.decode(), v)
    if cell is None and shapes:
        res.sigs.add("session|" + "|".join(sorted(shapes)))
    for k, v in world.net.stats.policy_counts.items():
        res.count("policy:" + k, v)
    if cell is not None:
        res.count("grid_cells")
        if fired[0]:
            res.count("grid_cells_fired")
        res.sigs.add("cell|%s|%s|%s|%d|%d|%s" % (op, step, verdict, ci, ti, lit))
    if res.trace is not None:
        res.trace.extend(render_events(world.net.events))
    if failure is not None:
        res.failure = failure


def jobs(tier, seed, scale=1.0):
    cells = all_cells()
    out = []
    B = 200
    reps = 1 if tier == "quick" else 4
    for rep in range(reps):
        for i in range(0, len(cells), B):
            out.append({"kind": "grid", "lo": i, "hi": min(len(cells), i + B), "rep": rep})
    nrandom = int((20000 if tier == "quick" else 2000000) * scale)
    R = 100
    for i in range(0, nrandom, R):
        out.append({"kind": "random", "i": i, "n": min(R, nrandom - i)})
    return out


EXHAUSTIVE = {"quick": False, "thorough": False}


def run_job(job, ctx):
    import sys
    from simkit.core import run_scenario
    from simkit.runner import Agg, judge
    me = sys.modules[__name__]
    agg = Agg()
    base = dict(ctx.get("config", {}))
    if job["kind"] == "grid":
        cells = all_cells()
        for i in range(job["lo"], job["hi"]):
            cell = cells[i]
            config = dict(base)
            config["cell"] = list(cell)
            seed = hash64(ctx["seed"], PROP, "grid", i, job["rep"])
            r = run_scenario(me, config, seed=seed)
            if judge(me, agg, config, seed, r, ctx):
                break
        return agg
    for k in range(job["n"]):
        seed = hash64(ctx["seed"], PROP, "random", job["i"] + k)
        sample = job["i"] == 0 and k < 2
        r = run_scenario(me, base, seed=seed, trace=sample)
        if judge(me, agg, base, seed, r, ctx, sample=sample):
            break
    return agg


def evidence_extra(tier, counts, sigs):
    return {"grid_cells_total": len(all_cells()), "grid_cells_run": counts.get("grid_cells", 0),
            "grid_cells_where_forced_reply_was_sent": counts.get("grid_cells_fired", 0)}
