"""C10 - no script command before authentication; no credentials before TLS.

Call histories over the whole public surface of Client (enumerated by
reflection), with the reference server misbehaving at each handshake step.
Safety invariants are evaluated on the ordered write log / the server's log
after every call.
"""

import inspect

from simkit import wire
from simkit.core import Failure
from simkit.chooser import hash64
from simkit.mserver import ServerConfig, F_NONE, F_NO, F_BYE, F_SILENT, F_CLOSE
from simkit.world import World
from simkit.tracefmt import render_events

PROP = "C10"
LEVEL = "fault_enumeration"
BUDGET = {"quick": 150, "thorough": 900}
EXHAUSTIVE = {"quick": True, "thorough": True}
RULE = ("Grid (complete): starttls argument {False, True, 1, 'required' (truthy, not the True singleton)} x server STARTTLS support {no,yes} x SASL announcement variant "
        "(same pre/post; pre PLAIN -> post LOGIN only; pre none -> post PLAIN; pre PLAIN -> post none; three pairs of listings that both name implemented mechanisms, but different ones (the mechanism used after the handshake must be the choice made from the later listing and the caller's authmech alone); no SASL capability; post look-alike names only; post names that are not UTF-8) x "
        "authmech {None, PLAIN, LOGIN, OAUTHBEARER, DIGEST-MD5, unknown} x one fault (or none) at a handshake step: greeting "
        "{refuse, BYE, NO, silence, close, garbage, missing OK, a complete greeting whose final text is a {n+} literal (alone and with a wrong password)}, STARTTLS {NO, BYE, silence, close, OK followed by an injected plaintext capability block}, TLS handshake "
        "{SSLError, cert error, timeout, EOF}, post-TLS capabilities {BYE, NO, silence, close, garbage, missing OK, a complete listing with a line that is not UTF-8 / blank, a listing that arrives after the read timeout (alone, and with a wrong password)}, "
        "AUTHENTICATE {NO, BYE, silence, close}, verdict {NO, BYE, wrong password, NO carrying valid final SASL data}; BYEs also with a REFERRAL response code. Every cell runs the history: the 8 "
        "script methods before connect; connect; the 8 script methods + capability; a second connect on the same object "
        "(refused / failing authentication / succeeding); the 8 script methods again. Then random histories (<= 8 calls "
        "over every public callable found by reflection). Non-trivial: a fault fired or a script method was called "
        "while unauthenticated. Distinct = grid cell, or (phase pattern, outcome pattern) for random histories.")
COMPONENTS = {"real": ["sievelib.managesieve.Client", "sievelib.digest_md5"],
              "stub": ["socket/ssl modules (simkit.net; TLS is a channel flag, no real handshake)", "ManageSieve server (simkit.mserver)"]}
ASSUMPTIONS = ["'statically, for every method' is approximated dynamically: every public callable of the class is exercised in every phase",
               "how connect fails (False or any exception) is not constrained",
               "'chosen from the capabilities announced after the handshake' is judged, where the two listings differ, as: the mechanism used is the one C16's "
               "stated rule (the caller's implemented authmech and no other, else the first of DIGEST-MD5, PLAIN, LOGIN, OAUTHBEARER announced) yields on the later listing"]

SCRIPT_METHODS = ["havespace", "listscripts", "getscript", "putscript", "checkscript", "deletescript",
                  "renamescript", "setactive"]

SASL_VARIANTS = [
    ("same", ["PLAIN", "LOGIN", "OAUTHBEARER"], None),
    ("same-with-digest", ["DIGEST-MD5", "PLAIN"], None),
    ("pre-plain-post-login", ["PLAIN"], ["LOGIN"]),
    ("pre-none-post-plain", [], ["PLAIN"]),
    ("pre-plain-post-none", ["PLAIN"], []),
    # both listings name implemented mechanisms, but different ones: what was announced in clear text must not even
    # influence which of the mechanisms announced after the handshake is used (or whether the caller's authmech is honoured)
    ("pre-digest-post-plain-login", ["DIGEST-MD5"], ["PLAIN", "LOGIN"]),
    ("pre-login-post-oauth-plain", ["LOGIN"], ["OAUTHBEARER", "PLAIN"]),
    ("pre-plain-login-post-login-digest", ["PLAIN", "LOGIN"], ["LOGIN", "DIGEST-MD5"]),
    ("no-sasl-cap", None, None),
    ("pre-plain-post-no-sasl-line", ["PLAIN"], False),
    ("pre-plain-post-bare-sasl-line", ["PLAIN"], "bare"),
    # after the handshake only names that merely contain the name of an implemented mechanism: nothing qualifies
    ("pre-plain-post-lookalikes", ["PLAIN"], ["SCRAM-SHA-256-PLUS", "X-PLAIN-SUBMIT", "NTLOGIN", "DIGEST-MD5-SESS"]),
    # ... or names that are not UTF-8 and turn into an implemented mechanism's name once the offending bytes are dropped
    ("pre-plain-post-not-utf8", ["PLAIN"], [b"PLA\xffIN", b"LOG\xe9IN", b"\xfeDIGEST-MD5", b"OAUTH\xc3BEARER"]),
]
AUTHMECHS = [None, "PLAIN", "LOGIN", "OAUTHBEARER", "X-UNKNOWN", "DIGEST-MD5"]
FAULTS = [None] + \
    [("greeting", k) for k in ("refuse", "bye", "no", "silent", "close", "garbage", "nook", "bye-referral", "litplus", "litplus+badpw")] + \
    [("starttls", k) for k in ("NO", "BYE", "silent", "close", "inject", "BYE-referral", "NO-reassuring")] + \
    [("tls", k) for k in ("sslerror", "certerror", "timeout", "eof")] + \
    [("postcaps", k) for k in ("bye", "no", "silent", "close", "garbage", "nook", "badline-utf8", "badline-blank", "late", "late+badpw", "litplus+badpw")] + \
    [("authenticate", k) for k in ("NO", "BYE", "silent", "close", "BYE-referral")] + \
    [("verdict", k) for k in ("NO", "BYE", "badpw", "NO-sasl", "BYE-referral")]
SECOND = ["refuse", "badpw", "ok", "greeting-close"]
ST_VALUES = [False, True, 1, "required"]      # the starttls argument: 1 / "required" = truthy values that are not the True singleton
KIND = {"NO": F_NO, "BYE": F_BYE, "silent": F_SILENT, "close": F_CLOSE, "BYE-referral": F_BYE, "NO-sasl": F_NO, "NO-reassuring": F_NO}
# refusals of STARTTLS whose wording invites a client to carry on regardless
REASSURING = [b"TLS already active", b"TLS is already active", b"already secured", b"OK", b"not needed: the connection is secure",
              b"STARTTLS completed", b"success"]


def all_cells():
    cells = []
    for st_arg in range(len(ST_VALUES)):
        for srv_tls in (0, 1):
            for sv in range(len(SASL_VARIANTS)):
                for am in range(len(AUTHMECHS)):
                    for f in range(len(FAULTS)):
                        flt = FAULTS[f]
                        if flt is not None and flt[0] in ("starttls", "tls", "postcaps") and not (st_arg and srv_tls):
                            continue   # step never reached in this configuration
                        cells.append((st_arg, srv_tls, sv, am, f))
    return cells


KNOWN_ARGS = {
    "havespace": ("x", 10), "listscripts": (), "getscript": ("x",), "putscript": ("x", "keep;\r\n"),
    "checkscript": ("keep;\r\n",), "deletescript": ("x",), "renamescript": ("x", "y"), "setactive": ("x",),
    "capability": (), "logout": (),
}


def synth_args(fn):
    """Arguments for a public callable: a table for the documented methods,
    the signature for anything else (so that a method added later is exercised
    too; its wrapper may hide the signature, in which case ``do`` retries with
    more arguments)."""
    name = getattr(fn, "__name__", "")
    for k, v in KNOWN_ARGS.items():
        if getattr(fn, "__self__", None) is not None and getattr(type(fn.__self__), k, None) is getattr(fn, "__func__", None):
            return v
    args = []
    try:
        sig = inspect.signature(fn)
    except (TypeError, ValueError):
        return ()
    for p in sig.parameters.values():
        if p.name == "self" or p.kind in (p.VAR_POSITIONAL, p.VAR_KEYWORD):
            continue
        if p.default is not p.empty:
            continue
        ann = p.annotation
        if ann is int or "size" in p.name:
            args.append(10)
        elif ann is bool:
            args.append(False)
        else:
            args.append("x")
    return tuple(args)


class Hooks:
    """Server behaviour for the next connect."""

    def __init__(self, world):
        self.world = world
        self.fault = None
        self.second = None
        self.fired = False

    def install(self):
        srv = self.world.server
        srv.greeting_hook = self.greeting
        srv.fault_hook = self.command
        srv.tls_hook = self.tls
        srv.postcaps_hook = self.postcaps
        srv.auth_hook = self.auth

    def _is(self, step):
        return self.fault is not None and self.fault[0] == step

    def greeting(self, conn):
        if self._is("greeting"):
            self.fired = True
            if self.fault[1] == "bye-referral":
                self.world.server.bye_with_referral = True
                return "bye"
            return "litplus" if self.fault[1].startswith("litplus") else self.fault[1]
        return None

    def command(self, conn, dec, scope):
        verb = dec if isinstance(dec, str) else dec.verb
        if verb == b"STARTTLS" and self._is("starttls"):
            self.fired = True
            if self.fault[1] == "inject":
                self.world.server.inject_after_starttls = True
                return None
            if self.fault[1] == "NO-reassuring":
                srv = self.world.server
                with srv.ch.abs_scope(scope):
                    text = srv.ch.srv.pick("reassuring", REASSURING)
                    lit = srv.ch.srv.flag("reassuring.lit", 1, 3)
                once = [False]

                def shape(status, code, t, sc):
                    if status == b"NO" and not once[0]:
                        once[0] = True
                        return None, text, lit
                    return None
                srv.shape_hook = shape
            return KIND[self.fault[1]]
        if self.fault is not None and self.fault[1].endswith("referral"):
            self.world.server.bye_with_referral = True
        if verb == b"AUTHENTICATE" and self._is("authenticate"):
            self.fired = True
            return KIND[self.fault[1]]
        if verb == "<auth-verdict>" and self._is("verdict") and self.fault[1] in KIND:
            self.fired = True
            if self.fault[1] == "NO-sasl":
                self.world.server.no_with_sasl_code = True
            return KIND[self.fault[1]]
        return None

    def tls(self, conn):
        if self._is("tls"):
            self.fired = True
            return self.fault[1]
        return "ok"

    def postcaps(self, conn):
        if self._is("postcaps"):
            self.fired = True
            return "late" if self.fault[1].startswith("late") else ("litplus" if self.fault[1].startswith("litplus") else self.fault[1])
        return None

    def auth(self, conn, creds, ok):
        if self._is("verdict") and self.fault[1] == "badpw":
            self.fired = True
            return False
        if self._is("postcaps") and self.fault[1] in ("late+badpw", "litplus+badpw"):
            return False        # a late listing and, should the client carry on regardless, a wrong password
        if self._is("greeting") and self.fault[1] == "litplus+badpw":
            return False
        return ok

    def arm_early_reject(self, ch):
        """With a wrong password, LOGIN may be refused right after the user name (no password challenge)."""
        srv = self.world.server
        srv.login_early_reject = False
        if self._is("verdict") and self.fault[1] == "badpw":
            srv.login_early_reject = ch.srv.flag("login_early_reject", 1, 2)


def conn_of(client, world):
    s = getattr(client, "sock", None)
    c = getattr(s, "_conn", None) if s is not None else None
    return c


def conn_authenticated(srv, conn):
    if conn is None or conn.state is None:
        return False
    return conn.state.auth_ok_count > 0


def listings_differ(cfg):
    """Both listings exist and name different mechanisms: only then does 'chosen from the later listing, not the earlier one'
    say anything that C16's rule alone does not."""
    pre, post = cfg.sasl_pre, cfg.sasl_post
    return isinstance(pre, list) and isinstance(post, list) and pre != post


def check_after_call(world, srv, client, meth, args, kw, out, was_auth, starttls_arg):
    """Safety clauses, evaluated after one call."""
    cid = out.call_id
    for v in srv.violations:
        if v[1] != cid:
            continue
        if "before authentication" in v[2]:
            return Failure(PROP, "C10.script-before-auth", "%s%r: %s (bytes %r) on a connection without a successful AUTHENTICATE" % (
                meth, args, v[2], v[3]), {"call": meth})
        if ("between STARTTLS OK and the TLS handshake" in v[2] or "TLS handshake started without" in v[2]) and \
                (meth == "connect" or b"AUTHENTICATE" in v[3].upper()):
            return Failure(PROP, "C10.creds-before-tls", "%s%r: %s %r" % (meth, args, v[2], v[3]), {"call": meth})
    recs = [r for r in srv.log if r.call_id == cid]
    if meth in SCRIPT_METHODS and not was_auth:
        written = b"".join(w[3] for w in out.writes)
        if written or not (out.kind == "exc" and out.exc_type == "Error"):
            if not (meth == "checkscript" and out.kind == "exc" and out.exc_type == "NotImplementedError" and not written):
                return Failure(PROP, "C10.no-refusal", "%s%r on an unauthenticated client %r and wrote %r (Error and nothing written expected)" % (
                    meth, args, out, written), {"call": meth})
    if meth == "connect":
        st = bool(kw.get("starttls"))
        conn = conn_of(client, world)
        if st:
            for r in recs:
                if r.verb == b"AUTHENTICATE" and r.channel == "plain":
                    return Failure(PROP, "C10.creds-before-tls", "connect(starttls=True) wrote AUTHENTICATE on the plain channel: %r" % (
                        r.decoded.raw if r.decoded else None,), {"call": meth})
            for w in out.writes:
                if w[2] == "plain" and b"AUTHENTICATE" in w[3].upper():
                    return Failure(PROP, "C10.creds-before-tls", "connect(starttls=True) wrote %r before TLS" % (w[3],), {"call": meth})
            if out.kind == "ret" and out.value is True:
                if conn is None or not conn.tls_established:
                    return Failure(PROP, "C10.connect-succeeds-without-tls", "connect(starttls=True) returned True but no TLS session was established", {"call": meth})
            for r in recs:
                if r.verb == b"AUTHENTICATE" and r.sasl is not None and r.sasl.get("unannounced"):
                    return Failure(PROP, "C10.stale-mech", "after STARTTLS the client authenticated with %s, which the server announced only before the handshake (announced now: %r)" % (
                        r.sasl["mech"], r.sasl["announced"]), {"call": meth})
                if r.verb == b"AUTHENTICATE" and r.sasl is not None and r.channel != "plain" and listings_differ(srv.cfg):
                    now = [a.decode("ascii", "replace") if isinstance(a, bytes) else a for a in (r.sasl.get("announced") or [])]
                    from scenarios.c16 import expected_mech
                    allowed = expected_mech(now, kw.get("authmech"))
                    if r.sasl["mech"] not in allowed:
                        return Failure(PROP, "C10.stale-mech", "after STARTTLS (announced now: %r) connect(authmech=%r) authenticated with %s; the choice made "
                                       "from the listing read after the handshake is %r" % (now, kw.get("authmech"), r.sasl["mech"], sorted(str(x) for x in allowed)), {"call": meth})
    return None


def run(ch, config, res):
    wl = ch.wl
    cell = config.get("cell")
    world_cfg = ServerConfig(version=True)
    if cell is not None:
        st_arg, srv_tls, sv, am, f = cell
        second = config.get("second", 0)
    else:
        with ch.scope("run"):
            st_arg = wl.int("starttls", len(ST_VALUES))
            srv_tls = 1 - wl.int("srv_notls", 2)
            sv = wl.int("sasl", len(SASL_VARIANTS))
            am = wl.int("authmech", len(AUTHMECHS))
    _, pre, post = SASL_VARIANTS[sv]
    world_cfg.starttls = bool(srv_tls)
    world_cfg.sasl_pre = pre
    world_cfg.sasl_post = post
    binary_names = isinstance(post, list) and any(isinstance(m, bytes) for m in post)
    world = World(ch, world_cfg, client_impl=config.get("client", "real"), read_timeout=5)
    world.server.quote_binary = binary_names      # this peer is malformed on purpose: the names travel inside quotes
    srv = world.server
    srv.data_variation = False
    srv.cap_variation = True
    with ch.scope("srvcfg"):
        srv.digest_final_in_ok = ch.srv.flag("digest_final_in_ok", 1, 2)
        # in half of the runs every status reply (the greeting's OK included) takes any RFC 5804 shape: response codes,
        # no text, literal texts whose lines look like status replies
        srv.status_variation = ch.srv.flag("status_shapes", 1, 2)
    srv.scripts[b"x"] = b"keep;\r\n"
    hooks = Hooks(world)
    hooks.install()
    failure = None
    pattern = []
    public = None

    def do(client, meth, args=(), kw=None):
        kw = kw or {}
        conn = conn_of(client, world)
        was_auth = conn_authenticated(srv, conn)
        o = world.call(client, meth, *args, **kw)
        tries = 0
        while (o.kind == "exc" and o.exc_type == "TypeError" and "required positional argument" in (o.exc_msg or "")
               and not o.writes and tries < 3):
            tries += 1
            args = tuple(args) + ("x",)
            o = world.call(client, meth, *args, **kw)
        fl = check_after_call(world, srv, client, meth, args, kw, o, was_auth, st_arg)
        pattern.append("%s:%s:%s" % (meth, "A" if was_auth else "-", o.key()[0] if o.kind != "exc" else o.exc_type))
        return o, fl

    with world:
        client = world.new_client()
        public = sorted(n for n in dir(type(client)) if not n.startswith("_") and callable(getattr(type(client), n)))
        res.count("public_callables", len(public))
        if cell is not None:
            plan = [("script-all", None)]
            plan.append(("connect", {"fault": FAULTS[f]}))
            plan.append(("script-all", None))
            plan.append(("other-all", None))
            plan.append(("connect2", SECOND[second]))
            plan.append(("script-all", None))
        else:
            plan = []
            with ch.scope("plan"):
                n = 1 + wl.int("ncalls", 8)
                for i in range(n):
                    k = wl.weighted("k%d" % i, [3, 3, 2])
                    if k == 0:
                        plan.append(("one", public[wl.int("m%d" % i, len(public))]))
                    elif k == 1:
                        fi = wl.int("f%d" % i, len(FAULTS))
                        plan.append(("connect", {"fault": FAULTS[fi]}))
                    else:
                        plan.append(("connect2", SECOND[wl.int("s%d" % i, len(SECOND))]))
        step = 0
        for kind, arg in plan:
            if failure is not None:
                break
            step += 1
            with ch.scope("op#%d" % step):
                if kind == "script-all":
                    for m in SCRIPT_METHODS:
                        o, failure = do(client, m, synth_args(getattr(client, m)))
                        if failure is not None or o.kind == "hang":
                            break
                elif kind == "other-all":
                    for m in public:
                        if m in SCRIPT_METHODS or m in ("connect", "logout"):
                            continue
                        o, failure = do(client, m, synth_args(getattr(client, m)))
                        if failure is not None or o.kind == "hang":
                            break
                elif kind == "one":
                    if arg == "connect":
                        continue
                    o, failure = do(client, arg, synth_args(getattr(client, arg)))
                elif kind == "connect":
                    hooks.fault = arg["fault"]
                    hooks.fired = False
                    srv.inject_after_starttls = False
                    srv.bye_with_referral = False
                    srv.no_with_sasl_code = False
                    srv.cfg.users = {"user": "password"}
                    hooks.arm_early_reject(ch)
                    kw = {"starttls": ST_VALUES[st_arg], "authmech": AUTHMECHS[am]}
                    o, failure = do(client, "connect", ("user", "password"), kw)
                    if hooks.fired:
                        res.count("fault:%s:%s" % hooks.fault)
                    hooks.fault = None
                elif kind == "connect2":
                    hooks.fired = False
                    if arg == "refuse":
                        hooks.fault = ("greeting", "refuse")
                    elif arg == "badpw":
                        hooks.fault = ("verdict", "badpw")
                    elif arg == "greeting-close":
                        hooks.fault = ("greeting", "close")
                    else:
                        hooks.fault = None
                    hooks.arm_early_reject(ch)
                    kw = {"starttls": ST_VALUES[st_arg], "authmech": AUTHMECHS[am]}
                    o, failure = do(client, "connect", ("user", "password"), kw)
                    if hooks.fired:
                        res.count("fault:second-connect:%s" % arg)
                    hooks.fault = None
    res.digest = world.digest()
    res.sim_time = world.clock.now
    res.count("calls", len(pattern))
    res.count("unauth_script_calls", sum(1 for p in pattern if p.split(":")[0] in SCRIPT_METHODS and p.split(":")[1] == "-"))
    if cell is not None:
        res.count("grid_cells")
        res.sigs.add("cell|%s|%s" % (",".join(str(x) for x in cell), second))
    else:
        res.sigs.add("hist|" + "|".join(pattern)[:300])
    if res.trace is not None:
        res.trace.extend(render_events(world.net.events))
    res.failure = failure


def jobs(tier, seed, scale=1.0):
    cells = all_cells()
    out = []
    B = 100
    total = len(cells) * len(SECOND)
    for i in range(0, total, B):
        out.append({"kind": "grid", "lo": i, "hi": min(total, i + B)})
    n = int((10000 if tier == "quick" else 1000000) * scale)
    for i in range(0, n, B):
        out.append({"kind": "random", "i": i, "n": min(B, n - i)})
    return out


def run_job(job, ctx):
    import sys
    from simkit.core import run_scenario
    from simkit.runner import Agg, judge
    me = sys.modules[__name__]
    agg = Agg()
    base = dict(ctx.get("config", {}))
    if job["kind"] == "grid":
        cells = all_cells()
        for i in range(job["lo"], job["hi"]):
            config = dict(base)
            config["cell"] = list(cells[i // len(SECOND)])
            config["second"] = i % len(SECOND)
            seed = hash64(ctx["seed"], PROP, "grid", i)
            r = run_scenario(me, config, seed=seed, trace=(i == 0))
            if judge(me, agg, config, seed, r, ctx, sample=(i == 0)):
                break
        return agg
    for k in range(job["n"]):
        seed = hash64(ctx["seed"], PROP, "random", job["i"] + k)
        r = run_scenario(me, base, seed=seed)
        if judge(me, agg, base, seed, r, ctx):
            break
    return agg


def evidence_extra(tier, counts, sigs):
    return {"grid_cells_total": len(all_cells()) * len(SECOND), "grid_cells_run": counts.get("grid_cells", 0)}
