"""C11 - a filter set survives being saved as a script and loaded back.

Editing histories with *restart* operations at drawn points: every Python
object is dropped and only the rendered text survives - locally (text ->
Parser -> from_parser_result) or end-to-end (text -> Client.putscript ->
reference server over a segmented connection -> new Client -> getscript ->
Parser -> from_parser_result).  Editing continues on the reloaded object.
"""

from simkit import sieveval
from simkit.core import Failure
from simkit.chooser import hash64
from simkit import editor as E

PROP = "C11"
LEVEL = "exploration"
BUDGET = {"quick": 150, "thorough": 900}
RULE = ("Histories of 2-14 operations (add / update / replace with description / disable / enable / move / remove / restart) "
        "over 4 generated names (single-line text incl. spaces, punctuation, non-ASCII; one name argument in five handed to add / update / replace as its UTF-8 bytes), generated descriptions, a marker "
        "prefix pair drawn per run, definitions from every documented form with values that need no escaping; 1-4 restarts "
        "per history, each local or end-to-end through the real client and the reference server. Non-trivial: at least one "
        "restart with a non-empty set. Distinct = (number of filters, enabled bits, descriptions present, prefix pair, restart "
        "kinds, condition/action kinds).")
COMPONENTS = {"real": ["sievelib.factory.FiltersSet", "sievelib.commands", "sievelib.parser.Parser",
                       "sievelib.managesieve.Client (end-to-end restarts)"],
              "stub": ["independent Sieve reader for tree comparison (simkit.sieveval)", "socket/ssl + ManageSieve server (end-to-end restarts)"]}
ASSUMPTIONS = ["names/descriptions are single-line, do not contain the marker prefixes and are not surrounded by whitespace",
               "in the end-to-end path a difference between uploaded and downloaded text is C17's/C08's: the run ends without a C11 verdict (counted)",
               "an absent description and '' are the same thing"]

PRETEXTS = [
    ("# Filter: ", "# Description: "),
    ("# rule:", "# desc:"),
    ("#N=", "#D="),
    ("# Name >> ", "# About >> "),
    ("# Filter (name): ", "# Filter (description): "),
    ("#[N] ", "#[D] "),
    ("#* Name: ", "#* About: "),
    ("# What? ", "# Why? "),
    ("#+N.", "#+D."),
    ("# N|n: ", "# D|d: "),
    ("#\\n ", "#\\d "),
    ("# ^name$ ", "# ^desc$ "),
    ("# Rule: ", "# RULE: "),
    ("# rule: ", "# Rule: info: "),
    ("# Re\u0301gle: ", "# De\u0301tail: "),
    ("# \u212bngstr\u00f6m ", "# \u2126 "),
    # markers that are told apart only by what follows a common stem (the closing blank matters)
    ("# Rule ", "# Rule-info "),
    ("# F ", "# F2 "),
    ("#name-desc ", "#name "),
    # one marker occurs inside the other without being its beginning
    ("#: ", "#:#: "),
    ("#:#: ", "#: "),
    ("# n: ", "# desc # n: "),
]
NAME_ALPHA = ["abcdefghijklmnopqrstuvwxyz0123456789", " ", "éüß€日本𝔘", ".-_@!?()[]{}*+=/", "ABCXYZ", "#:;,\"\\'|<>~", "e\u0301\u212b\u2126\ufb01\u200b\u200d\u202e\ufeff\u00a0\U0001f600\u0130\u00df"]


def gen_label(f, label, minlen=1, maxlen=10):
    s = f.text(label, NAME_ALPHA, maxlen, minlen).strip()
    return s or "n"


LONG_PARTS = ["lorem ipsum dolor sit amet", "  two  spaces ", "https://example.org/a/very/long/path/without/any/space/in/it/at/all/0123456789",
              "日本語のとても長い説明文がここに入りますので折り返されるかもしれません", "hyphen-ated-words-all-the-way-down-the-line", "x", "é" * 30, "tab\there", "C:\\reports\\new", "\\\\nas01\\mail", "\\r?$ \\n \\t \\\\",
              "cafe\u0301 \u2126 \u212b"]


def gen_long_desc(f, label):
    """Descriptions well beyond 72 characters (single line, not surrounded by whitespace)."""
    n = 2 + f.int(label + ".n", 4)
    parts = [LONG_PARTS[f.int(label + ".p", len(LONG_PARTS))] for _ in range(n)]
    sep = [" ", "  ", "", "-"][f.int(label + ".sep", 4)]
    return sep.join(parts).strip() or "d"


class MF:
    def __init__(self, name, struct, values):
        self.name = name
        self.struct = struct
        self.values = values
        self.enabled = True
        self.desc = None


def trees_of(fs):
    """Per filter: tree of its (unwrapped) rendering, via the independent reader."""
    tops = E.top_filters(str(fs))
    return [E.unwrap(t).tree() for t in tops], [E.is_wrapped(t) for t in tops]


def compare_reload(fs, fs2, model, label, name_pre, desc_pre):
    names2 = [E.fattr(f, "name") for f in fs2.filters]
    exp = [m.name for m in model]
    if names2 != exp:
        return Failure(PROP, "C11.names", "%s: reloaded names %r, expected %r\n%s" % (label, names2, exp, str(fs)), {})
    en2 = [bool(E.fattr(f, "enabled")) for f in fs2.filters]
    if en2 != [m.enabled for m in model]:
        return Failure(PROP, "C11.enabled", "%s: reloaded enabled flags %r, expected %r" % (label, en2, [m.enabled for m in model]), {})
    for f, m in zip(fs2.filters, model):
        if (E.fattr(f, "description") or "") != (m.desc or ""):
            return Failure(PROP, "C11.desc", "%s: filter %r reloaded with description %r, expected %r\n%s" % (
                label, m.name, E.fattr(f, "description"), m.desc, str(fs)), {})
    if set(fs2.requires) != set(fs.requires):
        return Failure(PROP, "C11.requires", "%s: reloaded requires %r, original %r" % (label, sorted(fs2.requires), sorted(fs.requires)), {})
    try:
        t1, w1 = trees_of(fs)
        t2, w2 = trees_of(fs2)
    except Exception as e:
        return Failure(PROP, "C11.tree", "%s: a rendering cannot be read: %s: %s" % (label, type(e).__name__, e), {})
    if t1 != t2 or w1 != w2:
        return Failure(PROP, "C11.tree", "%s: filters render to different trees after the reload:\n%s\n--- reloaded ---\n%s" % (
            label, str(fs), str(fs2)), {})
    text2 = str(fs2)
    fs3, err = E.load_text(text2, "again", name_pre, desc_pre)
    if fs3 is None:
        return Failure(PROP, "C11.fixpoint", "%s: the reloaded set's rendering does not parse (%s):\n%s" % (label, err, text2), {})
    if str(fs3) != text2:
        return Failure(PROP, "C11.fixpoint", "%s: rendering the reloaded set is not a fixed point:\n%s\n--- again ---\n%s" % (
            label, text2, str(fs3)), {})
    return None


def e2e_roundtrip(ch, config, text, res):
    """Upload and download through the real client and the reference server.
    Returns (downloaded text | None, reason)."""
    from simkit.mserver import ServerConfig
    from simkit.world import World
    cfg = ServerConfig(max_script_size=1 << 20, max_total=1 << 22)
    world = World(ch, cfg, client_impl=config.get("client", "real"))
    world.server.validator = sieveval.server_validator
    with world:
        c1 = world.new_client()
        o = world.call(c1, "connect", "user", "password")
        if not (o.kind == "ret" and o.value is True):
            return None, "connect failed: %r" % (o,)
        o = world.call(c1, "putscript", "saved", text)
        if not (o.kind == "ret" and o.value is True):
            return None, "upload refused: %r %r" % (o, getattr(c1, "errmsg", None))
        world.call(c1, "logout")
        c2 = world.new_client()
        o = world.call(c2, "connect", "user", "password")
        if not (o.kind == "ret" and o.value is True):
            return None, "second connect failed: %r" % (o,)
        o = world.call(c2, "getscript", "saved")
        if o.kind != "ret" or not isinstance(o.value, str):
            return None, "download failed: %r" % (o,)
        res.sim_time += world.clock.now
        return o.value, None


def as_arg(wl, label, name):
    """The API takes names as str or as their UTF-8 bytes: one name argument in five is handed over as bytes."""
    if name is not None and wl.flag(label, 1, 5):
        try:
            return name.encode("utf-8")
        except UnicodeEncodeError:
            return name
    return name


def run(ch, config, res):
    from sievelib.factory import FiltersSet
    wl = ch.wl
    with ch.scope("run"):
        nops = 2 + wl.int("nops", 13)
        name_pre, desc_pre = PRETEXTS[wl.int("pretext", len(PRETEXTS))]
        names = []
        for i in range(4):
            n = gen_label(wl, "name%d" % i)
            if name_pre.strip() in n or desc_pre.strip() in n:
                n = n.replace("#", "h")      # a name containing a marker prefix is outside the claim
            while n in names:
                n = n + "x"
            names.append(n)
    fs = FiltersSet("test", name_pre, desc_pre)
    with ch.scope("run"):
        # one Parser object for every load of the run (instead of a fresh one each time); markers given to the loading
        # set through its public attributes (instead of the constructor)
        from sievelib.parser import Parser
        shared_parser = Parser() if wl.flag("shared_parser", 1, 3) else None
        by_attr = wl.flag("markers_by_attribute", 1, 4)
    model = []
    failure = None
    kinds = set()
    restarts = []

    def find(n):
        for i, m in enumerate(model):
            if m.name == n:
                return i
        return -1

    i = 0
    while failure is None and i < nops:
        i += 1
        with ch.scope("op#%d" % i):
            last = i == nops
            k = wl.weighted("op", [5, 2, 3, 2, 1, 1, 1, 4]) if model else 0
            if not model and i > 1 and wl.flag("restart_empty", 1, 2):
                k = 7       # a set that has become empty (but may still name extensions) is saved and loaded too
            if last and (model or i > 1):
                k = 7
            op = ["add", "update", "replace", "disable", "enable", "move", "remove", "restart"][k]
            n = names[wl.int("name", len(names))]
            label = "op %d %s(%r)" % (i, op, n)
            if wl.flag("refused_first", 1, 6):
                # an add the factory refuses (see simkit.editor.BAD_DEFS), on a name that is not in use
                bconds_, bacts_, bmt_ = E.bad_definition(wl, "baddef")
                bn = names[wl.int("badname", len(names))]
                if find(bn) != -1 and wl.flag("refused_update", 1, 2):
                    # ... or an update of an existing filter (same name) that is refused: the filter keeps its content
                    rr = E.classify(lambda: fs.updatefilter(bn, bn, bconds_, bacts_, bmt_))
                else:
                    rr = E.classify(lambda: (fs.addfilter("never-added", bconds_, bacts_, bmt_), True)[1])
                res.count("refused_builds")
                if rr[0] == "ok":
                    res.count("ended:unsupported-description-accepted")
                    break
            if op in ("add", "update"):
                struct, values = E.gen_definition(wl, "def", "benign")
                conds, acts, mt = E.fill(struct, values)
                default_mt = mt == "anyof" and wl.flag("default_matchtype", 1, 2)
                if op == "add":
                    na = as_arg(wl, "bytes_name", n)
                    rc = E.classify(lambda: (fs.addfilter(na, conds, acts, mt) if not default_mt else fs.addfilter(na, conds, acts), True)[1])
                    if rc[0] == "ok":
                        model.append(MF(n, struct, values))
                else:
                    n2 = names[wl.int("name2", len(names))]
                    na, n2a = as_arg(wl, "bytes_name", n), as_arg(wl, "bytes_newname", n2)
                    rc = E.classify(lambda: (fs.updatefilter(na, n2a, conds, acts, mt) if not default_mt else fs.updatefilter(na, n2a, conds, acts)))
                    if rc[0] == "ok":
                        m = model[find(n)]
                        m.name, m.struct, m.values = n2, struct, values
                if rc[0].startswith("raised:"):
                    # building is C06's business; end the run without a C11 verdict
                    res.count("ended:build-raised")
                    break
                if rc[0] == "ok":
                    for c in conds:
                        kinds.add("c:" + E.cond_kind(c))
                    for a in acts:
                        kinds.add("a:" + a[0])
            elif op == "replace":
                content = fs.getfilter(n)
                if content is None:
                    continue
                if wl.flag("foreign_content", 1, 5):
                    # replacefilter takes any command: here a bare action taken from a parsed script, not an "if" rule
                    content = E.parsed_command(["keep;\n", 'redirect "a@example.org";\n', "discard;\n"][wl.int("foreign", 3)])
                desc = [None, gen_label(wl, "desc", 1, 14), "", gen_long_desc(wl, "longdesc"), n][wl.weighted("hasdesc", [1, 4, 1, 2, 1])]     # the last: a description that merely repeats the name
                if desc and (name_pre.strip() in desc or desc_pre.strip() in desc):
                    desc = desc.replace("#", "h")
                # one replace in three also renames - onto a free name or onto a name that is taken (refused: nothing changes)
                n2 = names[wl.int("name2", len(names))] if wl.flag("rename", 1, 3) else None
                na, n2a = as_arg(wl, "bytes_name", n), as_arg(wl, "bytes_newname", n2)
                rc = E.classify(lambda: fs.replacefilter(na, content, n2a, desc))
                if rc[0] == "ok":
                    if desc is not None:
                        model[find(n)].desc = desc
                    if n2 is not None:
                        model[find(n)].name = n2
            elif op == "disable":
                E.classify(lambda: fs.disablefilter(n))
                if find(n) != -1:
                    model[find(n)].enabled = False
            elif op == "enable":
                E.classify(lambda: fs.enablefilter(n))
                if find(n) != -1:
                    model[find(n)].enabled = True
            elif op == "move":
                d = ["up", "down"][wl.int("dir", 2)]
                rc = E.classify(lambda: fs.movefilter(n, d))
                if rc[0] == "ok":
                    j = find(n)
                    m = model.pop(j)
                    model.insert(j - 1 if d == "up" else j + 1, m)
            elif op == "remove":
                rc = E.classify(lambda: fs.removefilter(n))
                if rc[0] == "ok":
                    del model[find(n)]
            elif op == "restart":
                e2e = wl.flag("e2e", 1, 3)
                text = str(fs)
                loaded_text = text
                if e2e:
                    got, why = e2e_roundtrip(ch, config, text, res)
                    if got is None:
                        res.count("ended:e2e-" + why.split(":")[0].replace(" ", "-"))
                        break
                    if [l.rstrip("\r") for l in got.split("\n")] != [l for l in text.rstrip("\n").split("\n")] and \
                            got.replace("\r\n", "\n").rstrip("\n") != text.rstrip("\n"):
                        res.count("ended:e2e-text-differs")
                        break
                    loaded_text = got
                    res.count("restarts_e2e")
                else:
                    res.count("restarts_local")
                if shared_parser is not None and wl.flag("poison", 1, 2):
                    # the Parser that will load the script has just been through something else: a script that fails after
                    # a comment carrying the description marker, or one that ends with comments nobody owns
                    junk = ["%sleft over from another script\nif header :is \"a\" { keep; }\n" % desc_pre,
                            "keep;\n%sorphan name\n%sorphan description\n" % (name_pre, desc_pre),
                            "# just a comment\nstop\n"][wl.int("junk", 3)]
                    try:
                        shared_parser.parse(junk)
                    except Exception:
                        pass
                    res.count("poisoned_parsers")
                fs2, err = E.load_text(loaded_text, "test", name_pre, desc_pre, parser=shared_parser, markers_by_attribute=by_attr)
                if fs2 is None:
                    # a rendering the parser rejects is C06's business, but it also means the set did not survive
                    failure = Failure(PROP, "C11.tree", "%s: the saved script does not load (%s):\n%s" % (label, err, loaded_text), {})
                    break
                failure = compare_reload(fs, fs2, model, label, name_pre, desc_pre)
                restarts.append("e2e" if e2e else "local")
                fs = fs2
    res.digest = "%016x" % hash64(str(i), repr([(m.name, m.desc, m.enabled, m.values) for m in model]))
    res.count("ops", i)
    if restarts and model:
        res.sigs.add("%d|%s|%s|%s|%s|%s" % (len(model), "".join("1" if m.enabled else "0" for m in model),
                                        "".join("d" if m.desc else "-" for m in model), name_pre, ",".join(restarts),
                                        ",".join(sorted(kinds))))
    if res.trace is not None:
        res.trace.append("names=%r pretexts=%r" % (names, (name_pre, desc_pre)))
        res.trace.append(str(fs))
    res.failure = failure


def jobs(tier, seed, scale=1.0):
    n = int((10000 if tier == "quick" else 1000000) * scale)
    B = 100
    return [{"kind": "random", "i": i, "n": min(B, n - i)} for i in range(0, n, B)]


def run_job(job, ctx):
    import sys
    from simkit.core import run_scenario
    from simkit.runner import Agg, judge
    me = sys.modules[__name__]
    agg = Agg()
    base = dict(ctx.get("config", {}))
    for k in range(job["n"]):
        seed = hash64(ctx["seed"], PROP, "random", job["i"] + k)
        sample = job["i"] == 0 and k < 2
        r = run_scenario(me, base, seed=seed, trace=sample)
        if judge(me, agg, base, seed, r, ctx, sample=sample):
            break
    return agg
