"""C12 - filter-set editing operations behave like an ordered, uniquely named
list.  Refinement against a reference list model, checked after every step.
"""

from simkit import sieveval
from simkit.core import Failure
from simkit.chooser import hash64
from simkit import editor as E

PROP = "C12"
LEVEL = "exploration"
BUDGET = {"quick": 150, "thorough": 900}
RULE = ("Operation histories over a pool of 7 names (ASCII, non-ASCII, with a space, bytes-typed, an NFD/NFC pair, the empty string) and 6 simple definitions (replace also with a bare action from a parsed script as content) (incl. filters whose only condition is false / true): "
        "add / update (onto self, existing, new) / replace (content from getfilter, with and without new name and "
        "description) / remove / enable / disable / move up|down, checked against a list model after every step (names in order, enabled flags, is_filter_disabled, getfilter, the rendering, and filter_exists asked for every name of the pool, present or not). All "
        "histories up to length 3 (quick) / 4 (thorough) over an alphabet of 20 operations (two of them definitions the factory refuses) on 2 names are enumerated "
        "exhaustively; random histories of 1-25 operations follow (per-run operation mix). Non-trivial: the history contains "
        "a refused operation, a repeat (disable twice...) or a boundary move. Distinct = abstract states reached "
        "(order of names x enabled bits) together with the last operation's outcome class.")
COMPONENTS = {"real": ["sievelib.factory.FiltersSet", "sievelib.commands (serializer)"],
              "stub": ["reference list model (simkit.editor.Model)", "independent Sieve reader decides 'wrapped in if false' (simkit.sieveval)"]}
ASSUMPTIONS = ["the return value of disabling an already disabled / enabling an already enabled filter is unconstrained",
               "definitions need no escaping (hostile values are C06's)"]

NAMES = ["a", "Ünï", "with space", b"bytes-name", "e\u0301t\u00e9", "\u00e9t\u00e9", ""]   # two differ only by Unicode normalisation; the empty string is a name like any other
FOREIGN = 'redirect "a@example.org";\n'       # replacefilter takes any command, e.g. a bare action from a parsed script
DEFS = [
    ([("Subject", ":contains", "x")], [("fileinto", "F")], "anyof"),
    ([("size", ":over", "100k"), ("notexists", "X-A", "X-B")], [("redirect", ":copy", "a@b.c"), ("stop",)], "allof"),
    ([("envelope", ":is", ["From"], ["hello"])], [("keep",)], "anyof"),
    ([("Sender", ":notis", "t@t.com"), ("body", ":raw", ":contains", "m")], [("discard",)], "allof"),
    ([("false",)], [("keep",), ("stop",)], "anyof"),
    ([("true",)], [("stop",)], "allof"),
]

# alphabet for the exhaustive part: (op, args...) over names a / b
A, B = "a", "Ünï"
ALPHABET = [
    ("add", A, 0), ("add", B, 1), ("add", A, 1),
    ("update", A, A, 1), ("update", A, B, 0), ("update", B, A, 4),
    ("replace", A, B, None, None), ("replace", B, A, "c", "descr"),
    ("remove", A), ("remove", B),
    ("enable", A), ("disable", A), ("disable", B), ("enable", B),
    ("move", A, "up"), ("move", A, "down"), ("move", B, "up"), ("move", B, "down"),
    ("addbad", A, 3), ("updatebad", B, A, 0),
]


def uname(n):
    return n.decode("utf-8") if isinstance(n, bytes) else n


def expected_tree(definition):
    from sievelib.factory import FiltersSet
    conds, acts, mt = definition
    s = FiltersSet("scratch")
    s.addfilter("s", conds, acts, mt)
    return sieveval.parse(E.render_cmd(s.getfilter("s")))[0].tree()


_TREES = {}


def def_tree(di):
    if di not in _TREES:
        _TREES[di] = sieveval.parse(FOREIGN)[0].tree() if di == "ACT" else expected_tree(DEFS[di])
    return _TREES[di]


class State:
    def __init__(self):
        from sievelib.factory import FiltersSet
        self.fs = FiltersSet("test")
        self.model = E.Model()
        self.def_of = {}   # id(model filter) -> definition index


def apply(st, op):
    """Apply op to the real set and the model.  Returns (real class, model class, note)."""
    fs, model = st.fs, st.model
    kind = op[0]
    if kind == "add":
        _, n, di = op
        conds, acts, mt = DEFS[di]
        rc = E.classify(lambda: (fs.addfilter(n, conds, acts, mt), True)[1])
        mc = model.add(uname(n), di, None, None)
    elif kind == "update":
        _, o, n, di = op
        conds, acts, mt = DEFS[di]
        rc = E.classify(lambda: fs.updatefilter(o, n, conds, acts, mt))
        mc = model.update(uname(o), uname(n), di, None, None)
    elif kind in ("addbad", "updatebad"):
        # a definition the factory refuses: whatever it answers, the list of filters stays as it is
        conds, acts, mt = E.BAD_DEFS[op[-1]]
        if kind == "addbad":
            rc = E.classify(lambda: (fs.addfilter(op[1], conds, acts, mt), True)[1])
        else:
            rc = E.classify(lambda: fs.updatefilter(op[1], op[2], conds, acts, mt))
        if rc[0] == "ok":
            return "accepted"      # not a refused definition for this implementation: nothing to say
        if kind == "updatebad" and rc[0].startswith("raised:"):
            # the property does not say whether a refused update is all-or-nothing: sievelib renames first and builds the
            # content afterwards, so the filter may already carry its new name (with its old content, position and status)
            i = model.find(uname(op[1]))
            names = [E.fattr(f, "name") for f in fs.filters]
            if i != -1 and i < len(names) and names[i] == uname(op[2]) and model.find(uname(op[2])) == -1:
                model.filters[i].name = uname(op[2])
        return "any", "any", None
    elif kind == "replace":
        _, o, src, newn, desc = op
        if src == "<action>":
            content = E.parsed_command(FOREIGN)
            sdef = ("ACT", None, None)
        else:
            content = fs.getfilter(src)
            si = model.find(uname(src))
            if content is None or si == -1:
                if (content is None) != (si == -1):
                    return ("getfilter:%s" % (content is None), "getfilter:%s" % (si == -1), "getfilter disagrees with the model about %r" % (src,))
                return None
            sdef = model.filters[si].copy_def()
        rc = E.classify(lambda: fs.replacefilter(o, content, newn, desc))
        if desc is not None and "\n" in desc:
            # a description of several lines cannot be rendered as one comment, so the rendering of such a set says nothing;
            # but if the call is *refused* (raises), flag, predicate and rendering must still agree for every filter
            if rc[0].startswith("raised:"):
                return "agree-only"
            return "accepted"
        mc = model.replace(uname(o), sdef, uname(newn) if newn is not None else None, desc)
    elif kind == "remove":
        rc = E.classify(lambda: fs.removefilter(op[1]))
        mc = model.remove(uname(op[1]))
    elif kind == "enable":
        rc = E.classify(lambda: fs.enablefilter(op[1]))
        mc = model.enable(uname(op[1]))
    elif kind == "disable":
        rc = E.classify(lambda: fs.disablefilter(op[1]))
        mc = model.disable(uname(op[1]))
    elif kind == "move":
        rc = E.classify(lambda: fs.movefilter(op[1], op[2]))
        mc = model.move(uname(op[1]), op[2])
    else:
        raise AssertionError(op)
    return rc[0], mc, rc[2]


def observe(fs):
    """Observable state of the real set."""
    names = [E.fattr(f, "name") for f in fs.filters]
    flags = [bool(E.fattr(f, "enabled")) for f in fs.filters]
    return names, flags


def check_agreement(fs, label):
    """Flag, is_filter_disabled and the rendering agree for every filter (nothing else is asked)."""
    try:
        tops = E.top_filters(str(fs))
        names, flags = observe(fs)
        if len(tops) != len(names):
            return Failure(PROP, "C12.agree", "%s: %d filters but %d top-level commands in the rendering" % (label, len(names), len(tops)), {})
        for i, n in enumerate(names):
            pred = not fs.is_filter_disabled(n)
            wrapped = E.is_wrapped(tops[i])
            if not (flags[i] == pred == (not wrapped)):
                return Failure(PROP, "C12.agree", "%s: filter %r: enabled flag=%r, is_filter_disabled=%r, rendered wrapped in 'if false'=%r" % (
                    label, n, flags[i], not pred, wrapped), {})
            fs.getfilter(n)
    except Exception as e:
        return Failure(PROP, "C12.agree", "%s: the set can no longer be rendered and questioned: %s: %s" % (label, type(e).__name__, e), {})
    return None


def check_state(st, op, before_text, rc, mc):
    fs, model = st.fs, st.model
    label = "after %r" % (op,)
    if mc != "any" and rc != mc:
        clause = "C12.result"
        return Failure(PROP, clause, "%s: FiltersSet answered %s, the list model says %s" % (label, rc, mc), {})
    names, flags = observe(fs)
    if names != model.names():
        clause = "C12.move" if op[0] == "move" else ("C12.position" if op[0] in ("update", "replace") else "C12.names")
        return Failure(PROP, clause, "%s: names in order are %r, the list model has %r" % (label, names, model.names()), {})
    if len(set(names)) != len(names):
        return Failure(PROP, "C12.names", "%s: duplicate names %r" % (label, names), {})
    # the public membership question, asked for every name of the pool (present or not), in its text form
    for q in NAMES:
        qs = q.decode("utf-8") if isinstance(q, bytes) else q
        try:
            ans = fs.filter_exists(qs)
        except Exception as e:
            return Failure(PROP, "C12.names", "%s: filter_exists(%r) raised %s: %s" % (label, qs, type(e).__name__, e), {})
        if bool(ans) != (qs in names) or not isinstance(ans, bool):
            return Failure(PROP, "C12.names", "%s: filter_exists(%r) answered %r, the names in the set are %r" % (label, qs, ans, names), {})
    try:
        text = str(fs)
        tops = E.top_filters(text)
    except Exception as e:
        return Failure(PROP, "C12.agree", "%s: the rendered set cannot be read back: %s: %s" % (label, type(e).__name__, e), {})
    if len(tops) != len(names):
        return Failure(PROP, "C12.agree", "%s: %d filters but %d top-level commands in the rendering:\n%s" % (
            label, len(names), len(tops), text), {})
    for i, mf in enumerate(model.filters):
        n = names[i]
        flag = flags[i]
        wrapped = E.is_wrapped(tops[i])
        # the API accepts bytes-typed names everywhere: the same questions asked with the UTF-8 bytes of the name
        nb = n.encode("utf-8")
        try:
            pred = not fs.is_filter_disabled(n)
            pred_b = not fs.is_filter_disabled(nb)
            same_presence = (fs.getfilter(nb) is None) == (fs.getfilter(n) is None)
        except Exception as e:
            return Failure(PROP, "C12.content", "%s: asking about filter %r raised %s: %s (rendered wrapped in 'if false'=%r)" % (
                label, n, type(e).__name__, e, wrapped), {})
        if pred_b != pred or not same_presence:
            return Failure(PROP, "C12.agree", "%s: filter %r: is_filter_disabled / getfilter answer differently for the bytes form of the name (%r vs %r)" % (
                label, n, not pred_b, not pred), {})
        if not (flag == pred == (not wrapped)):
            return Failure(PROP, "C12.agree", "%s: filter %r: enabled flag=%r, is_filter_disabled=%r, rendered wrapped in 'if false'=%r" % (
                label, n, flag, not pred, wrapped), {})
        if flag != mf.enabled:
            clause = "C12.status" if op[0] in ("update", "replace") else "C12.agree"
            return Failure(PROP, clause, "%s: filter %r enabled=%r, the model says %r" % (label, n, flag, mf.enabled), {})
        try:
            got = fs.getfilter(n)
        except Exception as e:
            return Failure(PROP, "C12.content", "%s: getfilter(%r) raised %s: %s" % (label, n, type(e).__name__, e), {})
        if got is None:
            return Failure(PROP, "C12.content", "%s: getfilter(%r) is None" % (label, n), {})
        try:
            tree = sieveval.parse(E.render_cmd(got))[0].tree()
        except Exception as e:
            return Failure(PROP, "C12.content", "%s: getfilter(%r) does not render to a readable command: %s" % (label, n, e), {})
        if tree != def_tree(mf.conds):
            return Failure(PROP, "C12.content", "%s: getfilter(%r) renders to %r, the filter's own content is %r" % (
                label, n, tree, def_tree(mf.conds)), {})
        if E.unwrap(tops[i]).tree() != def_tree(mf.conds):
            return Failure(PROP, "C12.content", "%s: filter %r is rendered as %r, its content is %r" % (
                label, n, E.unwrap(tops[i]).tree(), def_tree(mf.conds)), {})
    if rc in ("false", "exists") and mc in ("false", "exists"):
        if text != before_text:
            return Failure(PROP, "C12.noop", "%s: the operation was refused (%s) but the set changed:\n%s\n--- before ---\n%s" % (
                label, rc, text, before_text), {})
    return None


def draw_op(wl, mix):
    k = wl.weighted("op", mix)
    kind = ["add", "update", "replace", "remove", "enable", "disable", "move", "bad"][k]
    n = NAMES[wl.int("name", len(NAMES))]
    if kind == "bad":
        if wl.flag("badupdate", 1, 3):
            return ("updatebad", n, NAMES[wl.int("name2", len(NAMES))], wl.int("baddef", len(E.BAD_DEFS)))
        return ("addbad", n, wl.int("baddef", len(E.BAD_DEFS)))
    if kind == "add":
        return ("add", n, wl.int("def", len(DEFS)))
    if kind == "update":
        return ("update", n, NAMES[wl.int("name2", len(NAMES))], wl.int("def", len(DEFS)))
    if kind == "replace":
        src = NAMES[wl.int("src", len(NAMES))]
        if wl.flag("foreign_content", 1, 6):
            src = "<action>"
        newn = [None, None, NAMES[wl.int("name2", len(NAMES))]][wl.int("hasnew", 3)]
        desc = [None, "a description", "", "two\nlines"][wl.weighted("desc", [3, 3, 3, 1])]
        return ("replace", n, src, newn, desc)
    if kind == "move":
        return ("move", n, ["up", "down"][wl.int("dir", 2)])
    return (kind, n)


def run(ch, config, res):
    wl = ch.wl
    hist = config.get("hist")
    st = State()
    failure = None
    if hist is not None:
        ops = [ALPHABET[i] for i in hist]
    else:
        ops = None
        with ch.scope("run"):
            n = 1 + wl.int("nops", 25)
            mix = [1 + wl.int("w%d" % i, 4) for i in range(7)] + [wl.int("w7", 3)]
    i = 0
    nontrivial = False
    last = None
    while failure is None:
        if ops is not None:
            if i >= len(ops):
                break
            op = ops[i]
        else:
            if i >= n:
                break
            with ch.scope("op#%d" % i):
                op = draw_op(wl, mix)
        i += 1
        try:
            before = str(st.fs)
        except Exception as e:
            failure = Failure(PROP, "C12.agree", "before %r: the set can no longer be rendered: %s: %s" % (op, type(e).__name__, e), {})
            break
        r = apply(st, op)
        if r is None:
            continue
        if r == "accepted":
            break
        if r == "agree-only":
            failure = check_agreement(st.fs, "after %r (refused with an exception)" % (op,))
            break
        rc, mc, exc = r
        if isinstance(exc, str):
            failure = Failure(PROP, "C12.content", exc, {})
            break
        if rc.startswith("raised:"):
            failure = Failure(PROP, "C12.result", "%r raised %s: %s" % (op, rc[7:], exc), {})
            break
        if mc in ("false", "exists", "any"):
            nontrivial = True
        last = (op[0], mc)
        failure = check_state(st, op, before, rc, mc)
    try:
        final_text = str(st.fs)
    except Exception as e:      # only after an unsupported definition was accepted (the history stops there, without a verdict)
        final_text = "render raised %s" % type(e).__name__
    res.digest = hash64(final_text, i)
    res.digest = "%016x" % res.digest
    res.count("ops", i)
    names = st.model.names()
    order = ",".join("%d" % (NAMES.index(n) if n in NAMES else (3 if n == "bytes-name" else 9)) for n in names)
    bits = "".join("1" if f.enabled else "0" for f in st.model.filters)
    if nontrivial or hist is not None:
        res.sigs.add("%s|%s|%s" % (order, bits, last))
    if hist is not None:
        res.count("exhaustive_histories")
    if res.trace is not None:
        res.trace.append("ops: %r" % (ops if ops is not None else "(drawn, see tape)"))
        res.trace.append(final_text)
    res.failure = failure


def hist_of(index):
    """index -> list of alphabet indices (lengths 1.., shortlex)."""
    n = len(ALPHABET)
    length = 1
    while index >= n ** length:
        index -= n ** length
        length += 1
    out = []
    for _ in range(length):
        out.append(index % n)
        index //= n
    return out[::-1]


def n_hist(maxlen):
    return sum(len(ALPHABET) ** l for l in range(1, maxlen + 1))


EXH_LEN = {"quick": 3, "thorough": 4}


def jobs(tier, seed, scale=1.0):
    out = []
    total = n_hist(EXH_LEN[tier])
    B = 500
    for i in range(0, total, B):
        out.append({"kind": "exh", "lo": i, "hi": min(total, i + B)})
    n = int((30000 if tier == "quick" else 3000000) * scale)
    R = 200
    for i in range(0, n, R):
        out.append({"kind": "random", "i": i, "n": min(R, n - i)})
    return out


def run_job(job, ctx):
    import sys
    from simkit.core import run_scenario
    from simkit.runner import Agg, judge
    me = sys.modules[__name__]
    agg = Agg()
    base = dict(ctx.get("config", {}))
    if job["kind"] == "exh":
        for i in range(job["lo"], job["hi"]):
            config = dict(base)
            config["hist"] = hist_of(i)
            r = run_scenario(me, config, seed=0, trace=(i == 700))
            if judge(me, agg, config, 0, r, ctx, sample=(i == 700)):
                break
        return agg
    for k in range(job["n"]):
        seed = hash64(ctx["seed"], PROP, "random", job["i"] + k)
        r = run_scenario(me, base, seed=seed)
        if judge(me, agg, base, seed, r, ctx):
            break
    return agg


def evidence_extra(tier, counts, sigs):
    return {"exhaustive_histories_run": counts.get("exhaustive_histories", 0),
            "exhaustive_histories_total": n_hist(EXH_LEN[tier]),
            "exhaustive_alphabet": [repr(a) for a in ALPHABET], "exhaustive_max_length": EXH_LEN[tier]}
