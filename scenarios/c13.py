"""C13 - parsing and filter building are independent of what happened before.

Several independent users of the library live in one interpreter (a reused
Parser, fresh Parsers, a FiltersSet being edited, a reloader); the scheduler
draws the interleaving of their calls.  Every outcome is compared with the
outcome of the same call in a *pristine* interpreter: a child forked from a
process that has imported sievelib and never parsed or built anything.
"""

import io
import os
import pickle
import sys

from simkit.core import Failure
from simkit.chooser import hash64

PROP = "C13"
LEVEL = "exploration"
BUDGET = {"quick": 200, "thorough": 900}
RULE = ("2-5 actors (reused Parser, fresh Parsers, a Parser constructed at one step and first used at a later one, FiltersSet editor incl. extension-bound tags such as :regex/:count/:value/"
        ":copy/:create/:flags, reloader = parse, then - other actors' calls later - from_parser_result + render), histories of 4-30 whole public calls (one run in sixteen: a marathon of 40-100 mostly failing parses on one reused Parser), the "
        "interleaving drawn by the scheduler; scripts from a pool of valid scripts with different require sets, invalid "
        "scripts of each error class, valid scripts truncated at a drawn byte (so that a parse ends mid-construct) valid scripts with one tag replaced by a tag borrowed from another command, and valid scripts with one structural character removed. "
        "Baselines: each parse alone in a freshly forked pristine child; each editor/reloader history alone in a freshly "
        "forked pristine child. Non-trivial: at least two actors took turns and a failed/truncated parse or an extension-"
        "bound definition occurred. Distinct = (actor interleaving pattern, classes of scripts parsed).")
COMPONENTS = {"real": ["sievelib.parser.Parser", "sievelib.commands (incl. process-global RequireCommand.loaded_extensions)",
                       "sievelib.factory.FiltersSet"],
              "stub": ["scheduler of whole public calls (simkit chooser, family 'sched')", "pristine interpreter = os.fork() of a process that never parsed"]}
ASSUMPTIONS = ["granularity is whole public calls (the property speaks of what other objects *have done*)",
               "add_commands is not part of the workload (registering a command is supposed to change later behaviour)",
               "calls do not overlap: no parse is started while another one is running (no nested parse from a command's completion hook, no second thread)"]

VALID = [
    'keep;\n',
    'require "fileinto";\nif true {\n  if header :is "A" "b" {\n    if size :over 1K {\n      if exists "X" {\n        if true { fileinto "deep"; }\n      }\n    }\n  } else {\n    if true { if true { if true { keep; } } }\n  }\n}\n',
    'require "fileinto";\nif header :contains "Subject" "x" { fileinto "F"; }\n',
    'require ["fileinto", "copy"];\n# c1\nif anyof (header :is "A" "b", size :over 100K) {\n    fileinto :copy "X";\n    stop;\n}\n',
    'require ["regex", "fileinto"];\nif header :regex "Subject" "^a.*b$" { fileinto "R"; }\n',
    'require ["relational", "comparator-i;ascii-numeric"];\nif header :count "ge" "Received" "5" { discard; }\n',
    'require ["vacation"];\nvacation :days 7 :subject "away" text:\nI am away.\n..dot\n.\n;\n',
    'require ["imap4flags", "fileinto"];\nif hasflag :contains "MyVar" "Junk" { fileinto :flags ["\\\\Seen"] "J"; }\n',
    'require ["envelope", "body"];\nif allof (envelope :is "from" "a@b", body :raw :contains "x") { keep; }\n',
    'require ["date", "relational"];\nif currentdate :zone "+0100" :value "gt" "date" "2020-01-01" { discard; }\n',
    '# Filter: one\n# Description: d\nif true { keep; }\n# Filter: two\nif false { if true { stop; } }\n',
    'require ["fileinto", "mailbox"];\nif exists ["X-A", "X-B"] { fileinto :create "N"; } elsif true { keep; } else { discard; }\n',
    'require ["reject"];\nif not address :domain :is "from" "example.org" { reject "no"; }\n',
    'require ["variables"];\nset "a" "b";\n',
    '/* bracket */ if size :under 1M { keep; } # trailing\n',
    'require ["vacation", "vacation-seconds"];\nvacation :seconds 60 "r";\n',
    # pairs: a script that requires/declares something, and (in INVALID) one that uses it without
    'require ["comparator-i;ascii-numeric"];\nif header :comparator "i;ascii-casemap" :is "X" "1" { keep; }\n',
    'require ["comparator-i;ascii-numeric", "relational"];\nif header :comparator "i;ascii-numeric" :value "gt" "X" "1" { keep; }\n',
    'require ["fileinto"];\n# caf\u00e9 \u65e5\u672c \U0001d518 comment\nif header :is "Subject" "caf\u00e9 \u65e5\u672c" {\n    fileinto "D\u00e9j\u00e0 \U0001d518";\n}\n# trailing comment after the last command\n',
    'require ["copy"];\nredirect :copy "a@b.c";\n',
    'require ["mailbox", "fileinto"];\nfileinto :create "New";\n',
    'require ["imap4flags"];\nsetflag "\\\\Seen";\nkeep :flags "\\\\Flagged";\n',
    'require ["body"];\nif body :content "text" :contains "x" { discard; }\n',
    'require ["date"];\nif date :zone "+0100" :is "received" "year" "2020" { keep; }\n',
    'require ["imap4flags", "fileinto"];\nif hasflag "\\\\Seen" { fileinto "S"; }\nif anyof (hasflag "x", not hasflag ["a", "b"]) { keep; }\n',
    'require ["imap4flags"];\nif allof (hasflag :is "Var" ["f1", "f2"], true) { addflag "Var" "f3"; removeflag "f1"; }\n',
    'require ["imap4flags"];\nif anyof (hasflag "x") { keep; }\nif hasflag "y" { discard; }\n',
    'require ["imap4flags"];\nif hasflag "z" { keep; }\n',
    # a require inside a block (accepted by this parser; the loader ignores it)
    'if true {\n  require "fileinto";\n  fileinto "x";\n}\n',
    'require "copy";\nif true {\n  require ["fileinto", "envelope"];\n  fileinto :copy "x";\n}\n',
]
# scripts as the factory writes them (named filters, some of them disabled): what a reloader typically loads
RELOADABLE = [
    '# Filter: one\n# Description: d\nif true { keep; }\n# Filter: two\nif false { if true { stop; } }\n',
    'require ["fileinto"];\n\n# Filter: a\nif false {\n    if anyof (header :is "Subject" "x") {\n        fileinto "F";\n    }\n}\n\n# Filter: b\nif anyof (size :over 1M) {\n    stop;\n}\n',
    'require ["fileinto", "copy"];\n# Filter: only\nif false {\n    if allof (header :contains "A" "b", exists "X") {\n        fileinto :copy "G";\n        stop;\n    }\n}\n',
    '# Filter: p\nif false { if true { keep; } }\n# Filter: q\nif false { if false { discard; } }\n# Filter: r\nif true { stop; }\n',
]
# degenerate but valid scripts: nothing at all (as str and as bytes), a blank line, a lone comment
DEGENERATE = ['', b'', '\n', '# only a comment\n']
INVALID = [
    'if header :contains "Subject" "x" { fileinto "F"; }\n',          # extension not loaded
    'require "fileinto"\nkeep;\n',                                    # missing semicolon
    'if true { keep; \n',                                             # unclosed block
    'nosuchcommand "x";\n',                                           # unknown command
    'if header :regex "S" "x" { keep; }\n',                           # regex not required
    'keep "extra";\n',                                                # surplus argument
    'if (true) { keep; }\n',                                          # misplaced parenthesis
    'require ["a", ];\n',                                             # malformed list
    'if header :is "a" "b" { keep; } elsif { keep; }\n',              # elsif without test
    'else { keep; }\n',                                               # misplaced else
    'require "vacation";\nvacation :days "x" "r";\n',                 # bad tag parameter
    'if anyof (true, ) { keep; }\n',                                  # misplaced comma
    '"string first";\n',                                              # no command
    'if header :comparator "i;bogus" :is "a" "b" { keep; }\n',        # bad comparator
    'if header :comparator "i;ascii-numeric" :is "X" "1" { keep; }\n',  # comparator never declared
    'redirect :copy "a@b.c";\n',                                      # :copy without require
    'require "fileinto";\nfileinto :create "New";\n',                # :create without mailbox
    'keep :flags "\\\\Flagged";\n',                                # :flags without imap4flags
    'if header :count "ge" "Received" "5" { discard; }\n',            # relational not required
    'if body :raw :contains "x" { keep; }\n',                         # body not required
    'if currentdate :zone "+0100" :is "date" "2020-01-01" { keep; }\n',  # date not required
    'require "vacation";\nvacation :seconds 60 "r";\n',              # vacation-seconds not required
    b'# caf\xe9 latin-1 comment\nkeep;\n',                          # not UTF-8
    b'keep;\nkeep;\nkeep;\nif header :is "a" "\xff\xfe" { keep; }\n',  # not UTF-8, late in the script
    # parses that end with an exception of their own *after* their require was taken in (a string that is not UTF-8; an
    # error message that indexes the text by a byte offset)
    b'require ["fileinto", "copy"];\nif header :is "a" "\xff\xfe" { fileinto :copy "x"; }\n',
    'require ["fileinto", "copy"];\n# caf\u00e9 \u65e5\u672c\u65e5\u672c\u65e5\u672c\u65e5\u672c\u65e5\u672c\nif header :is "a" "b" { fileinto :copy "x" }\n',
    'require ["regex", "body"];\n# \u65e5\u672c\u65e5\u672c\u65e5\u672c\u65e5\u672c\u65e5\u672c\u65e5\u672c\nif body :raw :regex "x" { keep }\n',
]

EDITOR_DEFS = [
    ([("Subject", ":contains", "x")], [("fileinto", "F")], "anyof"),
    ([("Subject", ":regex", "^a.*$")], [("fileinto", "R")], "anyof"),
    ([("Received", ":count", "ge", "5")], [("discard",)], "allof"),
    ([("X-Spam", ":value", "gt", "3")], [("fileinto", ":copy", "S")], "anyof"),
    ([("size", ":over", "1M")], [("fileinto", ":create", "Big"), ("stop",)], "allof"),
    ([("envelope", ":is", ["from"], ["a@b"])], [("fileinto", ":flags", "\\\\Seen", "E")], "anyof"),
    ([("currentdate", ":zone", "+0100", ":value", "gt", "date", "2020-01-01")], [("keep",)], "anyof"),
    ([("body", ":raw", ":contains", "m")], [("reject", "no")], "anyof"),
    ([("Subject", ":notregex", "b+")], [("redirect", ":copy", "a@b.c")], "allof"),
    ([("exists", "X-A")], [("vacation", ":seconds", 60, "r")], "anyof"),
]
NAMES = ["a", "b", "c"]


# ---------------------------------------------------------------------------
# execution of steps (only ever called in forked children)
# ---------------------------------------------------------------------------

def _fa(f, key):
    try:
        return f[key]
    except (TypeError, KeyError):
        return getattr(f, key, None)


def _parse_outcome(parser, script):
    try:
        ok = parser.parse(script)
    except Exception as e:   # noqa - a parse that raises is an outcome too
        return ("raised", type(e).__name__, str(e))
    if not ok:
        return ("rejected", getattr(parser, "error", None), getattr(parser, "error_pos", None))
    t = io.StringIO()
    try:
        parser.dump(t)
        dump = t.getvalue()
    except Exception as e:
        dump = "dump raised %s: %s" % (type(e).__name__, e)
    texts = []
    comments = []
    for r in parser.result:
        s = io.StringIO()
        try:
            r.tosieve(target=s)
            texts.append(s.getvalue())
        except Exception as e:
            texts.append("tosieve raised %s: %s" % (type(e).__name__, e))
        comments.append([bytes(c) if isinstance(c, (bytes, bytearray)) else c for c in r.hash_comments])
    return ("accepted", dump, texts, comments)


class Actors:
    """State of the actors inside one (forked) interpreter."""

    def __init__(self):
        self.reused = None
        self.editors = {}

    def step(self, spec):
        from sievelib.parser import Parser
        from sievelib.factory import FiltersSet, FilterAlreadyExists
        kind = spec[0]
        if kind == "reused":
            if self.reused is None:
                self.reused = Parser()
            return _parse_outcome(self.reused, spec[1])
        if kind == "fresh":
            return _parse_outcome(Parser(), spec[1])
        if kind == "early-make":
            # a Parser object that is constructed now and first used only after other actors have had their turns
            self.early = Parser()
            return ("early-make",)
        if kind == "early-use":
            p, self.early = self.early, None
            return _parse_outcome(p, spec[1])
        if kind == "reload-parse":
            # first half of a reload: parse and keep the Parser
            self.reload_parser = Parser()
            self.reload_out = _parse_outcome(self.reload_parser, spec[1])
            return ("reload-parse", self.reload_out)
        if kind == "reload-load":
            # second half, possibly many calls of other actors later
            p = getattr(self, "reload_parser", None)
            if p is None or self.reload_out[0] != "accepted":
                return ("reload-load", "nothing to load")
            try:
                fs = FiltersSet("r")
                fs.from_parser_result(p)
                # a second set loaded from the very same parse result (a working copy next to a pristine one)
                self.twin_a, self.twin_b = fs, FiltersSet("r")
                self.twin_b.from_parser_result(p)
                self.twin_b_text = str(self.twin_b)
                return ("reload-load", str(fs), [_fa(f, "name") for f in fs.filters], [_fa(f, "enabled") for f in fs.filters],
                        sorted(fs.requires))
            except Exception as e:
                self.twin_a = None
                return ("reload-load", "raised %s: %s" % (type(e).__name__, e))
        if kind == "twin-edit":
            # an editing operation on the working copy; the pristine copy loaded from the same parse result is then rendered
            a = getattr(self, "twin_a", None)
            if a is None or not a.filters:
                return ("twin-edit", "nothing loaded")
            name = _fa(a.filters[spec[2] % len(a.filters)], "name")
            try:
                if spec[1] == "update":
                    conds, acts, mt = EDITOR_DEFS[spec[3]]
                    r = a.updatefilter(name, name, conds, acts, mt)
                elif spec[1] == "disable":
                    r = a.disablefilter(name)
                elif spec[1] == "enable":
                    r = a.enablefilter(name)
                else:
                    r = a.replacefilter(name, a.getfilter(name), None, "edited")
                res = ("ret", repr(r))
            except Exception as e:
                res = ("exc", type(e).__name__, str(e))
            try:
                now = str(self.twin_b)
            except Exception as e:
                now = "render raised %s: %s" % (type(e).__name__, e)
            return ("twin-edit", res, now == self.twin_b_text, now if now != self.twin_b_text else "", self.twin_b_text if now != self.twin_b_text else "")
        if kind == "editor":
            _, eid, op = spec
            fs = self.editors.get(eid)
            if fs is None:
                fs = self.editors[eid] = FiltersSet("e%d" % eid)
            try:
                if op[0] == "add":
                    conds, acts, mt = EDITOR_DEFS[op[2]]
                    r = fs.addfilter(op[1], conds, acts, mt)
                elif op[0] == "update":
                    conds, acts, mt = EDITOR_DEFS[op[2]]
                    r = fs.updatefilter(op[1], op[1], conds, acts, mt)
                elif op[0] == "disable":
                    r = fs.disablefilter(op[1])
                elif op[0] == "enable":
                    r = fs.enablefilter(op[1])
                elif op[0] == "remove":
                    r = fs.removefilter(op[1])
                elif op[0] == "render":
                    r = None
                res = ("ret", repr(r))
            except FilterAlreadyExists:
                res = ("exc", "FilterAlreadyExists", "")
            except Exception as e:
                res = ("exc", type(e).__name__, str(e))
            try:
                text = str(fs)
            except Exception as e:
                text = "render raised %s: %s" % (type(e).__name__, e)
            return ("editor", res, text)
        raise AssertionError(spec)


def in_child(fn):
    """Run fn() in a forked child; returns its (picklable) result."""
    r, w = os.pipe()
    pid = os.fork()
    if pid == 0:
        code = 0
        try:
            os.close(r)
            try:
                data = pickle.dumps(("ok", fn()), protocol=4)
            except BaseException as e:  # noqa
                data = pickle.dumps(("err", "%s: %s" % (type(e).__name__, e)), protocol=4)
            with os.fdopen(w, "wb") as fp:
                fp.write(data)
        except BaseException:
            code = 1
        finally:
            os._exit(code)
    os.close(w)
    with os.fdopen(r, "rb") as fp:
        data = fp.read()
    os.waitpid(pid, 0)
    if not data:
        raise RuntimeError("forked child died without a result")
    st, val = pickle.loads(data)
    if st != "ok":
        raise RuntimeError("forked child failed: %s" % val)
    return val


_BASELINE_CACHE = {}
_PRISTINE_CHECKED = [False]


def assert_pristine():
    """The process that forks the children must never have parsed anything."""
    from sievelib.commands import RequireCommand
    if RequireCommand.loaded_extensions:
        raise RuntimeError("worker is not pristine: loaded_extensions=%r" % (RequireCommand.loaded_extensions,))


def parse_baseline(script):
    b = _BASELINE_CACHE.get(script)
    if b is None:
        b = in_child(lambda: Actors().step(("fresh", script)))
        if len(_BASELINE_CACHE) < 50000:
            _BASELINE_CACHE[script] = b
    return b


# ---------------------------------------------------------------------------
# the run
# ---------------------------------------------------------------------------

TAGS = [":over", ":under", ":is", ":contains", ":matches", ":regex", ":count", ":value", ":copy", ":create", ":flags", ":zone",
        ":originalzone", ":comparator", ":days", ":subject", ":raw", ":text", ":content", ":localpart", ":domain", ":all",
        ":mime", ":seconds", ":from", ":addresses", ":handle"]
_TAG_RE = None


def draw_script(wl, label, classes, marathon=False):
    global _TAG_RE
    k = wl.weighted(label + ".class", [1, 1, 8, 1, 1] if marathon else [4, 3, 3, 2, 2])
    if k == 4:
        # a valid script with one structural character removed: ) ( { } ; , [ ] or a quote
        base = VALID[wl.int(label + ".valid", len(VALID))]
        spots = [i for i, c in enumerate(base) if c in '(){};,[]"']
        classes.add("char-dropped")
        if not spots:
            return base
        i = spots[wl.int(label + ".spot", len(spots))]
        return base[:i] + base[i + 1:]
    if k == 3:
        # a valid script with one tag replaced by a tag borrowed from another command: mostly invalid, sometimes valid,
        # always presenting a tag to a command that does not usually see it
        import re
        if _TAG_RE is None:
            _TAG_RE = re.compile(r":[a-z]+")
        base = VALID[wl.int(label + ".valid", len(VALID))]
        spots = [m for m in _TAG_RE.finditer(base)]
        classes.add("tag-swapped")
        if not spots:
            return base
        m = spots[wl.int(label + ".spot", len(spots))]
        return base[:m.start()] + TAGS[wl.int(label + ".tag", len(TAGS))] + base[m.end():]
    if k == 0:
        classes.add("valid")
        j = wl.int(label + ".valid", len(VALID) + len(DEGENERATE))
        return VALID[j] if j < len(VALID) else DEGENERATE[j - len(VALID)]
    if k == 1:
        classes.add("invalid")
        return INVALID[wl.int(label + ".invalid", len(INVALID))]
    base = VALID[wl.int(label + ".valid", len(VALID))]
    if marathon and wl.flag(label + ".deep", 2, 3):
        base = VALID[1]        # the deeply nested script: a parse cut inside it leaves several blocks open
    raw = base.encode("utf-8")
    cut = 1 + wl.int(label + ".cut", max(1, len(raw) - 1))
    if marathon:
        cut = max(1, cut - cut % 5)      # a coarser grid of cut points keeps the pristine-baseline cache effective
    classes.add("truncated")
    # bytes, not text: a cut inside a multi-byte character makes the script invalid UTF-8, which is one more way
    # for a parse to end badly
    return raw[:cut]


def run(ch, config, res):
    wl = ch.wl
    assert_pristine()
    classes = set()
    with ch.scope("run"):
        marathon = wl.flag("marathon", 1, 16)
        if marathon:
            # one Parser object fed a long series of scripts, most of them ending badly: state that only builds up
            # over many failed parses (a counter that is not reset, a stack that is not emptied)
            nsteps = 40 + wl.int("nsteps_long", 61)
            actors = ["reused", "reused", "reused", "fresh"]
        else:
            nsteps = 4 + wl.int("nsteps", 27)
            actors = ["reused", "fresh"]
            if wl.flag("editor", 3, 4):
                actors.append("editor0")
            if wl.flag("reloader", 1, 2):
                actors.append("reload")
            if wl.flag("editor2", 1, 4):
                actors.append("editor1")
            if wl.flag("early", 1, 3):
                actors.append("early")
    plan = []
    reload_pending = [0]
    early_pending = [False]
    for i in range(nsteps):
        with ch.scope("step#%d" % i):
            a = actors[ch.sched.int("actor", len(actors))]
            if a == "reload":
                if reload_pending[0] == 1:
                    plan.append(("reload-load",))
                    reload_pending[0] = 2
                elif reload_pending[0] == 2 and wl.flag("twin", 2, 3):
                    plan.append(("twin-edit", ["update", "disable", "enable", "replace"][wl.int("twinop", 4)], wl.int("twinidx", 3),
                                 wl.int("twindef", len(EDITOR_DEFS))))
                    if wl.flag("twin_done", 1, 2):
                        reload_pending[0] = 0
                else:
                    if wl.flag("reloadable", 1, 2):
                        classes.add("valid")
                        plan.append(("reload-parse", RELOADABLE[wl.int("reloadable.i", len(RELOADABLE))]))
                    else:
                        plan.append(("reload-parse", draw_script(wl, "script", classes)))
                    reload_pending[0] = 1
            elif a == "early":
                if early_pending[0]:
                    plan.append(("early-use", draw_script(wl, "script", classes)))
                    early_pending[0] = False
                else:
                    plan.append(("early-make",))
                    early_pending[0] = True
            elif a in ("reused", "fresh"):
                plan.append((a, draw_script(wl, "script", classes, marathon)))
            else:
                eid = int(a[-1])
                k = wl.weighted("op", [5, 2, 1, 1, 1, 1])
                op = ["add", "update", "disable", "enable", "remove", "render"][k]
                n = NAMES[wl.int("name", len(NAMES))]
                if op in ("add", "update"):
                    di = wl.int("def", len(EDITOR_DEFS))
                    if di in (1, 2, 3, 8):
                        classes.add("ext-bound-def")
                    plan.append(("editor", eid, (op, n, di)))
                else:
                    plan.append(("editor", eid, (op, n)))

    def interleaved():
        acts = Actors()
        return [acts.step(s) for s in plan]

    got = in_child(interleaved)
    res.count("forks")
    failure = None
    # baselines
    editor_hist = {}
    for idx, spec in enumerate(plan):
        if spec[0] == "editor":
            editor_hist.setdefault(spec[1], []).append(idx)
        elif spec[0] in ("reload-parse", "reload-load", "twin-edit"):
            editor_hist.setdefault("reloader", []).append(idx)
    editor_base = {}
    for eid, idxs in editor_hist.items():
        steps = [plan[i] for i in idxs]

        def alone(steps=steps):
            acts = Actors()
            return [acts.step(s) for s in steps]
        outs = in_child(alone)
        res.count("forks")
        for i, o in zip(idxs, outs):
            editor_base[i] = o
    for idx, spec in enumerate(plan):
        if failure is not None:
            break
        if spec[0] == "early-make":
            continue
        if spec[0] in ("reused", "fresh", "early-use"):
            base = parse_baseline(spec[1])
            if got[idx] != base:
                who = {"reused": "reused", "fresh": "fresh", "early-use": "constructed-earlier"}[spec[0]]
                failure = Failure(PROP, "C13.parse", "step %d (%s Parser, after %d other calls): parsing %r gave %r; alone in a pristine interpreter it gives %r" % (
                    idx, who, idx, spec[1], _short(got[idx]), _short(base)), {"step": idx})
        elif spec[0] == "twin-edit":
            if len(got[idx]) > 2 and got[idx][2] is False:
                failure = Failure(PROP, "C13.factory", "step %d: %s on one FiltersSet changed the rendering of another FiltersSet loaded from the same parse result: %r, was %r" % (
                    idx, spec[1], _short(got[idx][3]), _short(got[idx][4])), {"step": idx})
            elif got[idx] != editor_base[idx]:
                failure = Failure(PROP, "C13.factory", "step %d: %s on a loaded FiltersSet after %d interleaved calls gave %r; the reloader's own history alone in a pristine interpreter gives %r" % (
                    idx, spec[1], idx, _short(got[idx]), _short(editor_base[idx])), {"step": idx})
        elif spec[0] in ("reload-parse", "reload-load"):
            base = editor_base[idx]
            if got[idx] != base:
                failure = Failure(PROP, "C13.factory" if spec[0] == "reload-load" else "C13.parse",
                                  "step %d: %s after %d interleaved calls gave %r; the reloader's own history alone in a pristine interpreter gives %r" % (
                                      idx, spec[0], idx, _short(got[idx]), _short(base)), {"step": idx})
        else:
            base = editor_base[idx]
            if got[idx] != base:
                failure = Failure(PROP, "C13.factory", "step %d: FiltersSet %r after %d interleaved calls gave %r; the same editor history alone in a pristine interpreter gives %r" % (
                    idx, spec[2], idx, _short(got[idx]), _short(base)), {"step": idx})
    res.digest = "%016x" % hash64(repr(got))
    res.count("steps", len(plan))
    pattern = "".join({"reused": "R", "fresh": "F", "reload-parse": "P", "reload-load": "L", "editor": "E", "early-make": "M", "early-use": "U", "twin-edit": "T"}[s[0]] for s in plan)
    turns = sum(1 for i in range(1, len(pattern)) if pattern[i] != pattern[i - 1])
    if turns >= 1 and (classes & {"invalid", "truncated", "ext-bound-def", "tag-swapped", "char-dropped"}):
        res.sigs.add("%s|%s" % (pattern, ",".join(sorted(classes))))
    for c in classes:
        res.count("class:" + c)
    if res.trace is not None:
        for i, s in enumerate(plan):
            res.trace.append("step %d %r -> %s" % (i, s, _short(got[i])))
    res.failure = failure


def _short(x, n=400):
    r = repr(x)
    return r if len(r) <= n else r[:n] + "..."


def jobs(tier, seed, scale=1.0):
    n = int((3000 if tier == "quick" else 300000) * scale)
    B = 25
    return [{"kind": "random", "i": i, "n": min(B, n - i)} for i in range(0, n, B)]


def run_job(job, ctx):
    from simkit.core import run_scenario
    from simkit.runner import Agg, judge
    me = sys.modules[__name__]
    agg = Agg()
    base = dict(ctx.get("config", {}))
    for k in range(job["n"]):
        seed = hash64(ctx["seed"], PROP, "random", job["i"] + k)
        sample = job["i"] == 0 and k < 1
        r = run_scenario(me, base, seed=seed, trace=sample)
        if judge(me, agg, base, seed, r, ctx, sample=sample):
            break
    return agg
