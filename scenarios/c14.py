"""C14 - emulated rename never loses or overwrites a script.

Complete grid: initial server state x fault placement (step x kind) x body
shape, against the reference server without RENAMESCRIPT; oracle = the
server's store before and after the call.
"""

from simkit import gen
from simkit.core import Failure
from simkit.chooser import hash64
from simkit.mserver import (ServerConfig, F_NONE, F_NO, F_BYE, F_SILENT, F_CLOSE, F_LOST_SILENT, F_LOST_CLOSE,
                            F_RESET, F_LOST_RESET, F_DELAYED, F_TRUNC, F_TRUNC_SILENT, F_TRUNC_RESET, FAULT_NAMES)
from simkit.world import World
from simkit.tracefmt import render_events

PROP = "C14"
LEVEL = "fault_enumeration"
BUDGET = {"quick": 150, "thorough": 900}
EXHAUSTIVE = {"quick": True, "thorough": True}
RULE = ("Grid (complete): initial store {old absent/present/active} x {new absent/present/active} (not both active) x "
        "bystanders {none, one, one active, two, two with one active} plus old == new, x one fault or none: step in "
        "{LISTSCRIPTS, GETSCRIPT, PUTSCRIPT, SETACTIVE, DELETESCRIPT} x kind in {NO, BYE, silence, close (FIN), reset (RST), applied then "
        "silence / close / reset, applied and answered later than the read timeout, applied and the reply cut at a drawn byte followed by close / silence / reset}, plus quota refusal of the copy, x 8 body shapes (CRLF, LF, mixed, no final newline, "
        "blank lines, multi-byte, empty, Unicode/VT/FF separators inside lines); double faults (quota refusal or forced NO at "
        "PUTSCRIPT/SETACTIVE/DELETESCRIPT followed by a second fault of any kind at the next occurrence of any step); a short "
        "history on the same client before the rename (listing, change of the active script; a listing that is out of date by the time of the call because another session added / removed the target or removed the source; an earlier attempt at the same rename stopped after its upload, the target then replaced by another session); names with a twin that differs only "
        "by Unicode normalisation, case or quoting; native RENAMESCRIPT is run on the same states as the control. Then random stores, "
        "names, bodies, fault placements and recv segmentation. Non-trivial: a fault fired or the target existed. "
        "Distinct = grid cells (state, fault, body) / (state class, fault, outcome) for random runs.")
COMPONENTS = {"real": ["sievelib.managesieve.Client.renamescript and everything it calls"],
              "stub": ["socket/ssl modules (simkit.net)", "ManageSieve server (simkit.mserver)"]}
ASSUMPTIONS = ["no other session modifies the store during the call (the property quantifies over server refusals, not racing sessions)",
               "content is compared line by line, line-ending style and trailing blank lines aside"]

STEPS = [b"LISTSCRIPTS", b"GETSCRIPT", b"PUTSCRIPT", b"SETACTIVE", b"DELETESCRIPT"]
KINDS = [F_NO, F_BYE, F_SILENT, F_CLOSE, F_LOST_SILENT, F_LOST_CLOSE, F_RESET, F_LOST_RESET, F_DELAYED, F_TRUNC, F_TRUNC_SILENT,
         F_TRUNC_RESET]
BODIES = [
    b"# one\r\nkeep;\r\n",
    b"# one\nkeep;\n",
    b"# one\r\nkeep;\nstop;\r\n",
    b"# one\r\nkeep;",
    b"# one\r\n\r\n\r\nkeep;\r\n\r\n",
    "# café € \U0001d518\r\nkeep;\r\n".encode("utf-8"),
    b"",
    "# sep\u2028arator\r\nke\x0bep;\x0c\r\n".encode("utf-8"),
]
BYST = ["none", "one", "one-active", "two", "two-active"]


def states():
    out = []
    for old in ("absent", "present", "active"):
        for new in ("absent", "present", "active"):
            if old == "active" and new == "active":
                continue
            for b in BYST:
                if b.endswith("active") and "active" in (old, new):
                    continue
                out.append((old, new, b, False))
    for old in ("absent", "present", "active"):
        for b in ("none", "one"):
            out.append((old, old, b, True))
    return out


def placements():
    out = [None, ("quota",)]
    for s in range(len(STEPS)):
        for k in KINDS:
            out.append((s, k))
    return out


# two faults in a row: a first refusal (quota-driven or forced NO) that a "work-around" might react to, then a second
# fault at the next occurrence of a step
FIRSTS = ["quota", (2, F_NO), (3, F_NO), (4, F_NO)]


def double_placements():
    out = []
    for f in range(len(FIRSTS)):
        for s in range(len(STEPS)):
            for k in KINDS:
                out.append(("double", f, s, k))
    return out


def all_cells():
    cells = []
    st = states()
    pl = placements()
    for si in range(len(st)):
        for pi in range(len(pl)):
            for bi in range(len(BODIES)):
                cells.append((si, pi, bi, 0))
    # native rename as the control: faults on the single RENAMESCRIPT command
    for si in range(len(st)):
        for k in [None] + KINDS:
            cells.append((si, k, 0, 1))
    # double faults (two body shapes)
    dp = double_placements()
    for si in range(len(st)):
        for di in range(len(dp)):
            for bi in (0, 7):
                cells.append((si, ["d", di], bi, 0))
    # a short history on the same client before the rename (listing, then a change of the active script)
    for si in range(len(st)):
        for bi in (0, 3):
            for ph in (1, 2, 3, 5, 6, 7):
                cells.append((si, ["h", ph], bi, 0))
    # an earlier command on the same connection was refused with NO (NONEXISTENT) (stale errcode / errmsg), then one fault
    pl = placements()
    for si in range(len(st)):
        for pi in range(2, len(pl)):
            cells.append((si, ["e", pi], 0, 0))
    # names that have a twin differing only by normalisation / case / quoting (no fault, and a fault at each step)
    for si in range(len(st)):
        for nv in range(1, len(NAME_VARIANTS)):
            for pl in [None] + [(stp, F_NO) for stp in range(len(STEPS))]:
                cells.append((si, ["n", nv, pl], 0, 0))
    return cells


# (old name, new name, name of an extra bystander that differs from the new (or old) name only by Unicode normalisation,
#  case, or what quoting does to it)
NAME_VARIANTS = [
    ("old", "new", None),
    ("old", "cafe\u0301", "caf\u00e9"),
    ("old", "caf\u00e9", "cafe\u0301"),
    ("old", "New", "new"),
    ("\u212bngstr\u00f6m", "new", "\u00c5ngstr\u00f6m"),
    ("a b", 'a"b', "a\\b"),
    ("old", "x" * 300, "x" * 299),
    # the same odd names without the twin standing by (a twin can mask a lookup that finds the wrong one of the two)
    ("old", "cafe\u0301", None),
    ("\u212bngstr\u00f6m", "\u2126", None),
    ("old", "New", None),
    # names whose last character is a backslash / a double quote (the end of their quoted form looks like an escape)
    ("old", "new\\", None),
    ("old", 'new"', None),
    ('old"', "new\\", "old\\"),
]


def build_store(srv, state, body, other_body=b"# other\r\nstop;\r\n", names=0):
    old, new, byst, same = state
    vo, vn, vextra = NAME_VARIANTS[names]
    oldn, newn = vo.encode("utf-8"), (vo.encode("utf-8") if same else vn.encode("utf-8"))
    if vextra is not None:
        srv.scripts[vextra.encode("utf-8")] = b"# twin\r\nredirect \"t@example.org\";\r\n"
    if byst in ("one", "one-active", "two", "two-active"):
        srv.scripts[b"by1"] = b"# by1\r\ndiscard;\r\n"
    if old != "absent":
        srv.scripts[oldn] = body
    if not same and new != "absent":
        srv.scripts[newn] = other_body
    if byst in ("two", "two-active"):
        srv.scripts[b"by2"] = b"# by2\nkeep;\n"
    if old == "active":
        srv.active = oldn
    elif new == "active" and not same:
        srv.active = newn
    elif byst.endswith("active"):
        srv.active = b"by1"
    return oldn.decode(), newn.decode()


def judge(srv, before, oldn, newn, out, native):
    sb, ab = before
    sa, aa = dict(srv.scripts), srv.active
    old, new = oldn.encode(), newn.encode()
    L = gen.lines_of
    # surface
    if out.kind == "hang":
        return Failure(PROP, "C14.surface", "renamescript(%r, %r) never returned: %s" % (oldn, newn, out.exc_msg), {})
    if out.kind == "exc" and out.exc_type != "Error":
        return Failure(PROP, "C14.surface", "renamescript(%r, %r) raised %s(%r)" % (oldn, newn, out.exc_type, out.exc_msg), {})
    if out.kind == "ret" and out.value is not True and out.value is not False:
        return Failure(PROP, "C14.surface", "renamescript(%r, %r) returned %r (True, False or Error expected)" % (oldn, newn, out.value), {})
    # lost
    for name, content in sb.items():
        kept = name in sa and L(sa[name]) == L(content)
        moved = name == old and new in sa and L(sa[new]) == L(content)
        if not kept and not moved:
            if name == old:
                return Failure(PROP, "C14.lost", "script %r (%r) is gone: afterwards the server holds %r" % (
                    name, content, {k: v for k, v in sa.items()}), {})
            return Failure(PROP, "C14.bystander", "script %r, which was not being renamed, changed from %r to %r" % (
                name, content, sa.get(name)), {})
    # bystander: anything else appearing or the active pointer moving
    for name in sa:
        if name not in sb and name != new:
            return Failure(PROP, "C14.bystander", "an unrelated script %r appeared" % name, {})
    if new in sb and new != old and (new not in sa or L(sa[new]) != L(sb[new])):
        return Failure(PROP, "C14.bystander", "the existing target %r was overwritten: %r -> %r" % (new, sb[new], sa.get(new)), {})
    if ab != old and aa != ab:
        return Failure(PROP, "C14.bystander", "the active script changed from %r to %r although %r was not the active script" % (ab, aa, old), {})
    if ab == old and old in sb and aa not in (old, new):
        return Failure(PROP, "C14.active", "%r was active; afterwards the active script is %r" % (old, aa), {})
    if out.kind == "ret" and out.value is True:
        if old in sa or new not in sa or old not in sb or L(sa[new]) != L(sb[old]) or ((aa == new) != (ab == old)):
            return Failure(PROP, "C14.true-contract", "renamescript(%r, %r) returned True but the server went from %r (active %r) to %r (active %r)" % (
                oldn, newn, sorted(sb), ab, sorted(sa), aa), {})
    return None


def run(ch, config, res):
    wl = ch.wl
    cell = config.get("cell")
    st_all = states()
    pl_all = placements()
    names = 0
    if cell is not None:
        si, pi, bi, native = cell
        state = st_all[si]
        body = BODIES[bi]
        prehist = 0
        if native:
            placement = None if pi is None else (0, pi)
        elif isinstance(pi, list) and pi[0] == "d":
            placement = double_placements()[pi[1]]
        elif isinstance(pi, list) and pi[0] == "h":
            placement = None
            prehist = pi[1]
        elif isinstance(pi, list) and pi[0] == "e":
            placement = pl_all[pi[1]]
            prehist = 4
        elif isinstance(pi, list) and pi[0] == "n":
            names = pi[1]
            placement = None if pi[2] is None else tuple(pi[2])
        else:
            placement = pl_all[pi]
    else:
        with ch.scope("run"):
            si = wl.int("state", len(st_all))
            state = st_all[si]
            native = wl.flag("native", 1, 8)
            pi = wl.int("placement", len(pl_all))
            placement = pl_all[pi]
            if wl.flag("double", 1, 4):
                dp = double_placements()
                pi = 1000 + wl.int("dplacement", len(dp))
                placement = dp[pi - 1000]
            prehist = wl.int("prehist", 8)
            names = wl.weighted("names", [3] + [1] * (len(NAME_VARIANTS) - 1))
            body = gen.body(wl, "body", hostile=False) if wl.flag("plainbody", 1, 2) else BODIES[wl.int("body", len(BODIES))]
    double = placement is not None and placement[0] == "double"
    quota = placement == ("quota",) or (double and FIRSTS[placement[1]] == "quota")
    cfg = ServerConfig(version=bool(native), max_scripts=10)
    world = World(ch, cfg, client_impl=config.get("client", "real"), read_timeout=5)
    srv = world.server
    srv.data_variation = cell is None
    # in the random part every status reply takes the shapes RFC 5804 allows (codes, texts as literals, texts whose lines
    # look like status lines): a refusal half-read by the client must not derail the rest of the rename
    srv.status_variation = cell is None
    oldn, newn = build_store(srv, state, body, names=names)
    if quota:
        cfg.max_scripts = len(srv.scripts)   # the copy cannot be stored
    step_verbs = [b"RENAMESCRIPT"] if native else STEPS
    fired = [None]

    stage = [0]

    pre_fault = [None]

    def fault_hook(conn, dec, scope):
        if pre_fault[0] is not None and not isinstance(dec, str) and dec.verb == pre_fault[0]:
            pre_fault[0] = None
            return F_NO
        if placement is None or isinstance(dec, str) or not armed[0]:
            return None
        if double:
            _, f, s2, k2 = placement
            first = FIRSTS[f]
            if stage[0] == 0:
                if first == "quota":
                    if dec.verb == b"PUTSCRIPT":
                        stage[0] = 1       # this one is refused by the quota
                    return None
                if dec.verb == STEPS[first[0]]:
                    stage[0] = 1
                    first_fired[0] = True
                    return first[1]
                return None
            if stage[0] == 1 and dec.verb == STEPS[s2]:
                stage[0] = 2
                fired[0] = (dec.verb, k2)
                return k2
            return None
        if quota:
            return None
        s, k = placement
        if s < len(step_verbs) and dec.verb == step_verbs[s] and fired[0] is None:
            fired[0] = (dec.verb, k)
            return k
        return None

    first_fired = [False]

    armed = [False]
    srv.fault_hook = fault_hook
    failure = None
    with world:
        client = world.new_client()
        with ch.scope("op#0"):
            o = world.call(client, "connect", "user", "password")
        if o.kind == "ret" and o.value is True:
            if prehist:
                # a short history on the same client: whatever it has seen before must not leak into the rename
                with ch.scope("prehist"):
                    if prehist == 4:
                        world.call(client, "getscript", "no-such-script")
                        world.call(client, "deletescript", "no-such-script")
                        world.call(client, "havespace", "x", 1)
                    else:
                        world.call(client, "listscripts")
                    if 2 <= prehist <= 3:
                        others = [k for k in srv.scripts if k != srv.active]
                        tgt = others[0].decode() if others else ""
                        world.call(client, "setactive", tgt)
                    if prehist == 3:
                        world.call(client, "getscript", oldn)
                        world.call(client, "listscripts")
                        world.call(client, "setactive", "")
                    if prehist == 7 and newn != oldn:
                        # an earlier attempt at the very same rename by this client was stopped after its upload (the final
                        # DELETESCRIPT was refused); since then another session has put a script of its own under the
                        # target name
                        pre_fault[0] = b"DELETESCRIPT"
                        world.call(client, "renamescript", oldn, newn)
                        pre_fault[0] = None
                        nb = newn.encode("utf-8")
                        if nb in srv.scripts and srv.active != nb:
                            srv.scripts[nb] = b"# put there by another session\r\nredirect \"o@example.org\";\r\n"
                    if prehist in (5, 6):
                        # what the client saw in its own listing is out of date by the time of the rename: meanwhile
                        # (another session, before the call) the target appeared / disappeared (5) or the source went away (6)
                        nb, ob = newn.encode("utf-8"), oldn.encode("utf-8")
                        if prehist == 5 and nb != ob:
                            if nb not in srv.scripts:
                                srv.scripts[nb] = b"# put there by another session\r\nredirect \"o@example.org\";\r\n"
                            elif srv.active != nb:
                                del srv.scripts[nb]
                        if prehist == 6 and ob in srv.scripts and srv.active != ob:
                            del srv.scripts[ob]
                res.count("prehistories")
            before = srv.snapshot()
            armed[0] = True
            with ch.scope("op#1"):
                o = world.call(client, "renamescript", oldn, newn)
            armed[0] = False
            failure = judge(srv, before, oldn, newn, o, native)
            if srv.violations and failure is None:
                v = srv.violations[0]
                failure = Failure(PROP, "C14.surface", "the server received something illegal during the rename: %s %r" % (v[2], v[3]), {})
        else:
            failure = Failure(PROP, "C14.setup", "could not connect: %r" % (o,), {})
    res.digest = world.digest()
    res.sim_time = world.clock.now
    if fired[0]:
        res.count("fault:%s@%s%s" % (FAULT_NAMES[fired[0][1]], fired[0][0].decode(), "(second fault)" if double else ""))
    if quota:
        res.count("fault:quota-refusal")
    if cell is not None:
        res.count("grid_cells")
        if fired[0] or quota:
            res.count("grid_cells_fault_fired")
        res.sigs.add("cell|%s" % (",".join(str(x) for x in cell)))
    else:
        res.sigs.add("rnd|%d|%s|%s|%s" % (si, pi, native, o.key()[0] if o.kind != "exc" else o.exc_type))
    if res.trace is not None:
        res.trace.append("state=%r placement=%r native=%r body=%r" % (state, placement, native, body))
        res.trace.extend(render_events(world.net.events))
        res.trace.append("store afterwards: %r active=%r" % (dict(srv.scripts), srv.active))
    res.failure = failure


def jobs(tier, seed, scale=1.0):
    cells = all_cells()
    out = []
    B = 200
    for i in range(0, len(cells), B):
        out.append({"kind": "grid", "lo": i, "hi": min(len(cells), i + B)})
    n = int((5000 if tier == "quick" else 500000) * scale)
    for i in range(0, n, B):
        out.append({"kind": "random", "i": i, "n": min(B, n - i)})
    return out


def run_job(job, ctx):
    import sys
    from simkit.core import run_scenario
    from simkit.runner import Agg, judge as fold
    me = sys.modules[__name__]
    agg = Agg()
    base = dict(ctx.get("config", {}))
    if job["kind"] == "grid":
        cells = all_cells()
        for i in range(job["lo"], job["hi"]):
            config = dict(base)
            config["cell"] = list(cells[i])
            seed = hash64(ctx["seed"], PROP, "grid", i)
            r = run_scenario(me, config, seed=seed, trace=(i == 3))
            if fold(me, agg, config, seed, r, ctx, sample=(i == 3)):
                break
        return agg
    for k in range(job["n"]):
        seed = hash64(ctx["seed"], PROP, "random", job["i"] + k)
        r = run_scenario(me, base, seed=seed)
        if fold(me, agg, base, seed, r, ctx):
            break
    return agg


def evidence_extra(tier, counts, sigs):
    return {"grid_cells_total": len(all_cells()), "grid_cells_run": counts.get("grid_cells", 0),
            "grid_cells_where_the_fault_fired": counts.get("grid_cells_fault_fired", 0)}
