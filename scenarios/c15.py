"""C15 - the client's view of the server stays correct over whole sessions.

1-3 clients (one connection each; the scheduler picks who issues the next
whole operation) against one reference server with small quotas, drawn reply
encodings, recv segmentation and forced NO.  After every operation the result
is compared with the server's ground truth at that moment; the server's
violation log (strict command decoder + command legality) must stay empty.
"""

from simkit import gen
from simkit.core import Failure
from simkit.chooser import hash64
from simkit.mserver import (ServerConfig, F_SILENT, F_CLOSE, F_LOST_SILENT, F_LOST_CLOSE, F_TRUNC, F_RESET, F_LOST_RESET,
                            F_TRUNC_SILENT, F_TRUNC_RESET)
from simkit.world import World
from simkit.tracefmt import render_events

PROP = "C15"
LEVEL = "exploration"
BUDGET = {"quick": 150, "thorough": 900}
RULE = ("Sessions of 5-40 operations by 1-3 clients over a pool of 5 names, unique script bodies, quotas small enough that "
        "QUOTA/*, NONEXISTENT, ACTIVE and ALREADYEXISTS refusals occur, reply encodings (quoted/literal), listing order, "
        "recv segmentation and forced NO drawn; one operation in twelve loses its connection (reply lost, cut at a drawn byte or "
        "never sent; connection closed, reset or silent) and the same object reconnects; reconnects that must fail (a mechanism the server does not announce, STARTTLS the server does not offer, a LOGIN exchange the server ends with NO right after the user name) after which the object must refuse script commands and nothing stray may reach the server; with several clients one may be told BYE and is retired; every session ends "
        "with a fresh Client object that must connect and list correctly. Every result is compared with the server's state "
        "at that moment. Non-trivial: the session contained at least one refusal or one literal-encoded value. Distinct = "
        "(number of clients, sorted set of (operation, outcome class) pairs seen).")
COMPONENTS = {"real": ["sievelib.managesieve.Client"],
              "stub": ["socket/ssl modules (simkit.net)", "ManageSieve server (simkit.mserver)"]}
ASSUMPTIONS = ["operations of different clients do not overlap (the client is synchronous), so no linearizability search is needed",
               "names and bodies need no escaping (hostile values are C08's / C17's)"]

CRASHES = [F_TRUNC, F_CLOSE, F_LOST_CLOSE, F_RESET, F_LOST_RESET, F_TRUNC_RESET, F_SILENT, F_LOST_SILENT, F_TRUNC_SILENT]

OPS = ["listscripts", "putscript", "getscript", "deletescript", "setactive", "renamescript", "havespace",
       "checkscript", "capability", "putscript", "getscript", "listscripts", "badreconnect", "reconnect"]


def text_lines(s):
    ls = s.split("\n")
    ls = [l[:-1] if l.endswith("\r") else l for l in ls]
    while ls and ls[-1] == "":
        ls.pop()
    return ls


def run(ch, config, res):
    wl = ch.wl
    with ch.scope("run"):
        version = not wl.flag("noversion", 1, 3)
        nclients = 1 + wl.weighted("nclients", [3, 2, 1])
        nops = 5 + wl.int("nops", 36)
        rsz = [4096, 1, 7, 64][wl.weighted("read_size", [6, 1, 1, 1])]
        shapes = wl.flag("status_shapes", 1, 3)
        # the session may be opened with any mechanism, with or without an authorisation id: what connect() reports has to
        # match what the server decided whichever exchange led there
        sasl = [["PLAIN"], ["DIGEST-MD5"], ["LOGIN"], ["OAUTHBEARER"], ["DIGEST-MD5", "PLAIN"]][wl.weighted("sasl", [5, 2, 1, 1, 1])]
        authz = "admin" if (sasl[0] in ("PLAIN", "DIGEST-MD5") and wl.flag("authz", 1, 3)) else ""
        use_tls = wl.flag("starttls", 1, 3)        # a third of the sessions run over STARTTLS
    cfg = ServerConfig(version=version, max_scripts=3, max_script_size=120, max_total=260, sasl_pre=sasl, starttls=use_tls)
    with ch.scope("srvcfg"):
        # the digest-challenge may offer a choice of protections (the client's "auth" among them)
        cfg.digest_qop = ["auth", "auth,auth-int", "auth-conf,auth"][ch.srv.weighted("qop", [4, 1, 1])]
    world = World(ch, cfg, client_impl=config.get("client", "real"), read_size=rsz)
    srv = world.server
    srv.order_variation = True
    srv.cap_variation = True
    # each connection is offered VERSION (RENAMESCRIPT, CHECKSCRIPT) or not, independently: what one Client object learnt
    # about its server must not leak into another
    conn_version = {}

    def version_hook(conn):
        with ch.abs_scope("conn-version#%d" % conn.id):
            v = version if nclients == 1 else not ch.srv.flag("noversion", 1, 2)
        conn_version[conn.id] = v
        return v
    srv.version_hook = version_hook
    crash = [None]

    def fault_hook(conn, dec, scope):
        k, crash[0] = crash[0], None
        return k
    srv.fault_hook = fault_hook
    srv.text_lit_variation = True
    with ch.scope("srvcfg"):
        srv.digest_final_in_ok = ch.srv.flag("digest_final_in_ok", 1, 2)
    # in a third of the sessions status replies take every RFC 5804 shape (codes, multi-line literal texts with
    # look-alike lines): their content is C09's business, a reply left half-read is a desynchronisation = ours
    srv.status_variation = shapes
    counter = [0]
    failure = [None]
    kinds = set()

    def fail(clause, detail, **data):
        if failure[0] is None:
            failure[0] = Failure(PROP, clause, detail, data)

    def check_violations(where):
        if srv.violations:
            v = srv.violations[0]
            fail("C15.server-violation", "during %s the server received something illegal: %s %r" % (where, v[2], v[3]))

    def connect(client, label):
        # what the server announces may change from one connection to the next (only the first mechanism matters here)
        with ch.scope(ch.scope_name + ".sasl" if ch.scope_name else "sasl"):
            if wl.flag("sasl_changes", 1, 3):
                sasl[:] = [["PLAIN"], ["DIGEST-MD5"], ["LOGIN"], ["OAUTHBEARER"]][wl.int("sasl_now", 4)]
                cfg.sasl_pre = sasl
        kw = {}
        if authz and sasl[0] in ("PLAIN", "DIGEST-MD5"):
            kw["authz_id"] = authz        # only where the mechanism carries one next to the login
        if use_tls:
            kw["starttls"] = True
        o = world.call(client, "connect", "user", "password", **kw)
        if not (o.kind == "ret" and o.value is True):
            fail("C15.connect", "%s: connect (SASL %s%s) against a conforming server %r" % (label, sasl[0], ", authz_id=%r" % authz if authz else "", o))
            return False
        check_violations(label)
        return failure[0] is None

    def expect_listing():
        act = srv.active.decode() if srv.active else None
        return act, sorted(k.decode() for k in srv.scripts if k != srv.active)

    with world:
        clients = []
        for c in range(nclients):
            cl = world.new_client()
            with ch.scope("conn#%d" % c):
                if not connect(cl, "client %d" % c):
                    break
            clients.append(cl)
        i = 0
        while failure[0] is None and i < nops and clients:
            i += 1
            with ch.scope("op#%d" % i):
                ci = ch.sched.int("client", len(clients)) if len(clients) > 1 else 0
                client = clients[ci]
                op = OPS[wl.int("op", len(OPS))]
                # forced refusals: NO for anybody; BYE only while another client remains
                srv.fault_weights = [40, 3, 1 if len(clients) > 1 else 0, 0, 0, 0, 0, 0]
                args = ()
                if op == "reconnect":
                    # the same object connects again (the old connection is simply abandoned); everything must keep working
                    srv.fault_weights = [1, 0, 0, 0, 0, 0, 0, 0]
                    if wl.flag("logout_first", 1, 2):
                        world.call(client, "logout")
                    connect(client, "op %d reconnect" % i)
                    kinds.add(("reconnect", "ok"))
                    continue
                if op == "badreconnect":
                    # reconnect on the same object asking for a mechanism the server does not announce: must fail, and the
                    # object must then refuse script commands until it has really authenticated again
                    srv.fault_weights = [1, 0, 0, 0, 0, 0, 0, 0]
                    if not use_tls and wl.flag("bad_by_starttls", 1, 2):
                        # ... or asking for STARTTLS, which this server does not offer: connect stops before AUTHENTICATE
                        o = world.call(client, "connect", "user", "password", starttls=True)
                        how = "starttls=True) although the server does not offer STARTTLS"
                    elif sasl[0] == "LOGIN" and wl.flag("bad_by_early_no", 1, 2):
                        # ... or the server ends the LOGIN exchange with NO right after the user name (unknown account): whatever
                        # the client had planned to send next must not reach the server as a stray line
                        srv.login_early_reject = True
                        o = world.call(client, "connect", "user", "password")
                        srv.login_early_reject = False
                        how = ") returned True although the server refused the LOGIN exchange after the user name"
                        res.count("login_early_no")
                    else:
                        other = "LOGIN" if sasl[0] != "LOGIN" else "PLAIN"
                        o = world.call(client, "connect", "user", "password", authmech=other)
                        how = "authmech=%r) returned True although the server announces %s only" % (other, sasl[0])
                    if o.kind == "ret" and o.value is True:
                        fail("C15.mismatch", "op %d: connect(%s" % (i, how))
                    o2 = world.call(client, "listscripts")
                    if not (o2.kind == "exc" and o2.exc_type == "Error" and not o2.writes):
                        fail("C15.server-violation", "op %d: after a failed reconnect listscripts() %r and wrote %r (Error and nothing written expected)" % (
                            i, o2, [w[3] for w in o2.writes]))
                    check_violations("op %d failed reconnect" % i)
                    if failure[0] is None:
                        connect(client, "op %d reconnect" % i)
                    kinds.add(("badreconnect", "refused"))
                    continue
                if op in ("getscript", "deletescript"):
                    args = (gen.name(wl, "name"),)
                elif op == "setactive":
                    args = ("" if wl.flag("deactivate", 1, 5) else gen.name(wl, "name"),)
                elif op == "putscript":
                    counter[0] += 1
                    body = "# body %d\r\nkeep;\r\n" % counter[0]
                    v = wl.weighted("variant", [6, 1, 1, 1, 1])
                    if v == 4:
                        body = ""      # the empty script (a server may send it back as "" or as {0})
                    elif v == 3:
                        body += "\ufeff# bom line\r\nx\u2028y\r\n"
                    elif v == 1:
                        body += "INVALID\r\n"
                    elif v == 2:
                        body += "#" + "x" * 130 + "\r\n"
                    args = (gen.name(wl, "name"), body)
                elif op == "checkscript":
                    cc = getattr(getattr(client, "sock", None), "_conn", None)
                    if not (conn_version.get(cc.id, version) if cc is not None else version):
                        continue
                    args = ("keep;\r\n" if not wl.flag("invalid", 1, 3) else "INVALID\r\n",)
                elif op == "renamescript":
                    args = (gen.name(wl, "name"), gen.name(wl, "name2"))
                    cc = getattr(getattr(client, "sock", None), "_conn", None)
                    if not (conn_version.get(cc.id, version) if cc is not None else version):
                        srv.fault_weights = [1, 0, 0, 0, 0, 0, 0, 0]
                elif op == "havespace":
                    sz = [10, 100, 125, 250][wl.int("size", 4)]
                    args = (gen.name(wl, "name"), str(sz) if wl.flag("size_as_str", 1, 4) else sz)
                # a crash of the connection inside this operation: the reply is lost, cut at a drawn byte, or never comes, and
                # the connection is closed / reset / left silent.  What the call itself reports is not constrained (the
                # command may or may not have been applied - the server's state is still known); afterwards the same object
                # connects again and everything must be in step and correct.
                crashed = False
                if not (op == "renamescript") and wl.flag("crash", 1, 12):
                    crash[0] = CRASHES[wl.int("crashkind", len(CRASHES))]
                    crashed = True
                before = srv.snapshot()
                o = world.call(client, op, *args)
                crash[0] = None
                if crashed:
                    check_violations("op %d client %d %s%r (connection crashed)" % (i, ci, op, args))
                    kinds.add((op, "crash"))
                    if o.kind == "hang":
                        fail("C15.mismatch", "op %d %s%r never returned after the connection was lost" % (i, op, args))
                        break
                    srv.fault_weights = [1, 0, 0, 0, 0, 0, 0, 0]
                    with ch.scope("recover"):
                        if wl.flag("refused_first", 1, 3):
                            # the first attempt to come back is refused (a mechanism the server does not announce): the object
                            # must not believe it is still authenticated from the session it lost
                            other = "LOGIN" if sasl[0] != "LOGIN" else "PLAIN"
                            ob = world.call(client, "connect", "user", "password", authmech=other)
                            if ob.kind == "ret" and ob.value is True:
                                fail("C15.mismatch", "op %d: connect(authmech=%r) returned True although the server announces %s only" % (i, other, sasl[0]))
                            o2 = world.call(client, "listscripts")
                            if not (o2.kind == "exc" and o2.exc_type == "Error" and not o2.writes):
                                fail("C15.server-violation", "op %d: after a lost connection and a refused reconnect listscripts() %r and wrote %r (Error and nothing written expected)" % (
                                    i, o2, [w[3] for w in o2.writes]))
                            check_violations("op %d refused reconnect after a lost connection" % i)
                            kinds.add(("crash+badreconnect", "refused"))
                        if failure[0] is None:
                            connect(client, "op %d reconnect after a lost connection" % i)
                    continue
            recs = [r for r in srv.log if r.call_id == o.call_id]
            label = "op %d client %d %s%r" % (i, ci, op, args)
            check_violations(label)
            if failure[0] is not None:
                break
            if any(r.status == b"BYE" for r in recs):
                kinds.add((op, "BYE"))
                if not (o.kind == "exc" and o.exc_type == "Error"):
                    fail("C15.mismatch", "%s: server said BYE, call %r" % (label, o))
                clients.pop(ci)
                continue
            if o.kind != "ret":
                fail("C15.mismatch", "%s: %r against a conforming server (replies %r)" % (label, o, [r.raw for r in recs]))
                break
            last = recs[-1] if recs else None
            cconn = getattr(getattr(client, "sock", None), "_conn", None)
            cver = conn_version.get(cconn.id, version) if cconn is not None else version
            emulated = op == "renamescript" and not cver
            if [n for n in srv.notes if n[1] == o.call_id]:
                fail("C15.server-violation", "%s: %s" % (label, [n for n in srv.notes if n[1] == o.call_id][0][2]))
                break
            if emulated:
                old, new = (a.encode() for a in args)
                sb, ab = before
                legal = old in sb and new not in sb and old != new
                exp = legal
                # quota may legitimately refuse the intermediate copy
                if legal and any(r.status == b"NO" for r in recs):
                    exp = False
                if o.value is not exp and not (exp is False and o.value is None):
                    fail("C15.mismatch", "%s returned %r; expected %r given the server state %r (replies %r)" % (
                        label, o.value, exp, sorted(sb), [r.raw for r in recs]))
                elif o.value is True:
                    if old in srv.scripts or srv.scripts.get(new) is None or gen.lines_of(srv.scripts[new]) != gen.lines_of(sb[old]) \
                            or (ab == old) != (srv.active == new):
                        fail("C15.mismatch", "%s returned True but the server now holds %r active=%r" % (label, sorted(srv.scripts), srv.active))
                kinds.add((op + "-emu", "ok" if o.value else "refused"))
                continue
            if last is None:
                fail("C15.mismatch", "%s returned %r without talking to the server" % (label, o.value))
                break
            ok = last.status == b"OK"
            # the answer is the answer to the question that was asked: the command carried this call's own arguments
            if last.decoded is not None and args and op != "putscript" and op != "checkscript":
                want = [a.encode() if isinstance(a, str) else a for a in args]
                if op == "havespace":
                    want[1] = int(args[1])
                if list(last.decoded.args) != want:
                    fail("C15.mismatch", "%s: the server was asked %r" % (label, last.decoded.raw))
                    break
            kinds.add((op, "ok" if ok else ("forcedNO" if last.fault else "NO:" + (last.reply.code[0].decode() if last.reply.code else "-"))))
            if op in ("putscript", "deletescript", "setactive", "renamescript", "havespace", "checkscript"):
                if (o.value is True) != ok or (not ok and o.value not in (False, None)):
                    fail("C15.mismatch", "%s returned %r but the server answered %r" % (label, o.value, last.raw))
            elif op == "capability":
                if (o.value is not None and o.value is not False) != ok:
                    fail("C15.mismatch", "%s returned %r but the server answered %r" % (label, o.value, last.raw))
            elif op == "listscripts":
                if not ok:
                    if o.value is not None:
                        fail("C15.mismatch", "%s returned %r but the server answered %r" % (label, o.value, last.raw))
                else:
                    exp = expect_listing()
                    got = o.value
                    if not (isinstance(got, tuple) and len(got) == 2 and got[0] == exp[0] and sorted(got[1]) == exp[1]):
                        fail("C15.mismatch", "%s returned %r; the server holds active=%r others=%r (reply %r)" % (
                            label, got, exp[0], exp[1], last.raw))
            elif op == "getscript":
                stored = srv.scripts.get(args[0].encode())
                if not ok:
                    if o.value is not None:
                        fail("C15.mismatch", "%s returned %r but the server answered %r" % (label, o.value, last.raw))
                elif not isinstance(o.value, str) or text_lines(o.value) != [l.decode() for l in gen.lines_of(stored)]:
                    fail("C15.mismatch", "%s returned %r; the server holds %r (reply %r)" % (label, o.value, stored, last.raw))
        # progress once faults stop: a fresh client must be served correctly
        if failure[0] is None:
            srv.fault_weights = [1, 0, 0, 0, 0, 0, 0, 0]
            fresh = world.new_client()
            with ch.scope("fresh"):
                if connect(fresh, "fresh client after the session"):
                    o = world.call(fresh, "listscripts")
                    exp = expect_listing()
                    got = o.value if o.kind == "ret" else None
                    if not (isinstance(got, tuple) and len(got) == 2 and got[0] == exp[0] and sorted(got[1]) == exp[1]):
                        fail("C15.recover", "a fresh client after the session listed %r (%r); the server holds active=%r others=%r" % (
                            got, o, exp[0], exp[1]))
                    check_violations("fresh client")
    res.digest = world.digest()
    res.sim_time = world.clock.now
    for k, v in srv.fault_counts.items():
        res.count("fault:" + k, v)
    for k, v in world.net.stats.policy_counts.items():
        res.count("policy:" + k, v)
    res.count("ops", i)
    res.count("clients:%d" % nclients)
    if any(k[1] != "ok" for k in kinds):
        res.sigs.add("%d|%s" % (nclients, ",".join(sorted("%s:%s" % k for k in kinds))))
    if res.trace is not None:
        res.trace.extend(render_events(world.net.events))
    res.failure = failure[0]


def jobs(tier, seed, scale=1.0):
    n = int((14000 if tier == "quick" else 3000000) * scale)
    B = 100
    return [{"kind": "random", "i": i, "n": min(B, n - i)} for i in range(0, n, B)]


def run_job(job, ctx):
    import sys
    from simkit.core import run_scenario
    from simkit.runner import Agg, judge
    me = sys.modules[__name__]
    agg = Agg()
    base = dict(ctx.get("config", {}))
    for k in range(job["n"]):
        seed = hash64(ctx["seed"], PROP, "random", job["i"] + k)
        sample = job["i"] == 0 and k < 1
        r = run_scenario(me, base, seed=seed, trace=sample)
        if judge(me, agg, base, seed, r, ctx, sample=sample):
            break
    return agg
