"""C16 - SASL: the right mechanism, carrying exactly the caller's credentials.

connect() against reference servers announcing every subset / ordering of the
implemented mechanisms plus unknown ones; the server side of each mechanism
decodes what it received and the decoded values are compared with what the
caller passed.  The DIGEST-MD5 client nonce comes from the seeded random seam.
"""

from simkit.core import Failure
from simkit.chooser import hash64
from simkit.mserver import ServerConfig, SimServer, F_NO
from simkit.world import World
from simkit.tracefmt import render_events

PROP = "C16"
LEVEL = "exploration"
BUDGET = {"quick": 150, "thorough": 900}
RULE = ("connect() x announced SASL list (every subset of {DIGEST-MD5, PLAIN, LOGIN, OAUTHBEARER} in 3 orderings, with and "
        "without unknown mechanisms, empty list, no SASL capability) x authmech {None, each implemented, unknown, wrong "
        "case} x server verdict {accept, reject, forced NO} (stratified, complete), credentials drawn over unicode text "
        "(non-ASCII, spaces, comma, equals, quotes, backslash, colon; empty authorisation id or not); then random draws of "
        "all of it with recv segmentation. Non-trivial: anything but PLAIN-only with ASCII credentials. Distinct = "
        "(announced list, authmech, verdict, credential character classes).")
COMPONENTS = {"real": ["sievelib.managesieve.Client.connect and the mechanism implementations", "sievelib.digest_md5"],
              "stub": ["socket/ssl modules (simkit.net)", "server sides of PLAIN / LOGIN / OAUTHBEARER / DIGEST-MD5 (simkit.mserver)",
                       "random module inside digest_md5 (seeded)"]}
ASSUMPTIONS = ["RFC 4616 / 7628 / 2831 wire formats as implemented in simkit.mserver (written from memory of the RFCs; the "
               "reference client of the null self-test must satisfy the same decoders)",
               "a wrong-case authmech may be treated either as naming the mechanism or as naming none",
               "the digest-challenge always offers charset=utf-8 (RFC 2831's ISO 8859-1 mode for servers without it is not modelled; the client has none either)",
               "for OAUTHBEARER and LOGIN, which have no separate authorisation id, what the client does with authz_id is not constrained"]

IMPL = ["DIGEST-MD5", "PLAIN", "LOGIN", "OAUTHBEARER"]
UNKNOWN = ["SCRAM-SHA-1", "GSSAPI", "XOAUTH2"]
LOOKALIKE = {"DIGEST-MD5": "DIGEST-MD5-SESS", "PLAIN": "PLAIN-CLIENTTOKEN", "LOGIN": "XLOGIN", "OAUTHBEARER": "OAUTHBEARER-PLUS"}
AUTHMECHS = [None, "PLAIN", "LOGIN", "OAUTHBEARER", "DIGEST-MD5", "X-UNKNOWN", "plain"]
VERDICTS = ["accept", "reject", "forced-no"]
CRED_CLASSES = [
    "abcdefghijklmnopqrstuvwxyz0123456789",
    " ", ",", "=", '"', "\\", ":", "éüß€日本𝔘", "@.-_",
    # no C0/C1 control characters: several mechanisms cannot carry them (^A separates OAUTHBEARER fields) and the
    # property's alphabet does not list them
    "\u0301\u200b\u200d\u202e\ufeff\u00a0\u2028\u212b\ufb01\U0001f600\u0130\u00df",
]
CLASS_NAMES = ["plain", "space", "comma", "equals", "dquote", "backslash", "colon", "nonascii", "punct", "oddity"]
# values that look like pieces of the mechanisms' own wire formats
CRED_WHOLE = ["Bearer token-0123", "bearer x", "BEARER", "n,a=admin,", "=2C=3D", "a=b,c", "auth=Bearer x", "rspauth=1", "PLAIN",
              "{5}", "user@example.org", "Basic dXNlcg==", "dXNlcg==", "username=\"x\"", "realm", "e\u0301", "\u212bke", " lead", "trail ",
              "x" * 300, "a:b:c", "00000001", "nonce"]


def announced_lists():
    out = []
    for mask in range(16):
        sub = [IMPL[i] for i in range(4) if mask & (1 << i)]
        for order in range(3):
            for unk in (0, 1, 2):
                l = list(sub)
                if order == 1:
                    l.reverse()
                elif order == 2:
                    l = l[1:] + l[:1]
                if unk == 1:
                    l = [UNKNOWN[0]] + l + [UNKNOWN[1]]
                elif unk == 2:
                    # names that merely contain the name of an implemented mechanism that is NOT announced
                    la = [LOOKALIKE[m] for m in IMPL if m not in sub]
                    if not la:
                        continue
                    l = la[:2] + l + la[2:]
                if order and len(sub) < 2:
                    continue
                out.append(l)
    out.append(None)   # no SASL capability at all
    return out


def all_cells():
    cells = []
    al = announced_lists()
    for a in range(len(al)):
        for m in range(len(AUTHMECHS)):
            for v in range(len(VERDICTS)):
                cells.append((a, m, v))
    return cells


def cred(f, label, allow_empty=False):
    if f.flag(label + ".ascii", 1, 2) is False and not allow_empty:
        pass
    kind = f.weighted(label + ".kind", [3, 4, 2])
    if kind == 0:
        return ["user", "secret", "admin"][f.int(label + ".plainval", 3)] if not allow_empty else ""
    if kind == 2:
        return CRED_WHOLE[f.int(label + ".whole", len(CRED_WHOLE))]
    return f.text(label + ".txt", CRED_CLASSES, 10, 0 if allow_empty else 1)


def classes_of(vals):
    out = set()
    for v in vals:
        for i, cls in enumerate(CRED_CLASSES[1:], 1):
            if any(c in cls for c in v):
                out.add(CLASS_NAMES[i])
    return out


def expected_mech(announced, authmech):
    """Returns a set of acceptable mechanisms (None in the set = nothing may be
    sent)."""
    ann = announced or []

    def first():
        for m in IMPL:
            if m in ann:
                return m
        return None

    if authmech in IMPL:
        return {authmech if authmech in ann else None}
    if authmech is not None and authmech.upper() in IMPL and authmech not in IMPL:
        named = authmech.upper()
        return {named if named in ann else None, first()}
    return {first()}


def run(ch, config, res):
    wl = ch.wl
    cell = config.get("cell")
    al = announced_lists()
    if cell is not None:
        a, m, v = cell
    else:
        with ch.scope("run"):
            a = wl.int("announced", len(al))
            m = wl.int("authmech", len(AUTHMECHS))
            v = wl.weighted("verdict", [3, 2, 1])
    announced = al[a]
    authmech = AUTHMECHS[m]
    verdict = VERDICTS[v]
    with ch.scope("creds"):
        login = cred(wl, "login")
        password = cred(wl, "password")
        authz = cred(wl, "authz", allow_empty=True) if wl.flag("has_authz", 1, 2) else ""
        if authz and wl.flag("authz_is_login", 1, 4):
            authz = login          # an authorisation id equal to the login is still an authorisation id
        rsz = [4096, 1, 7][wl.weighted("read_size", [6, 1, 1])]
    # in some runs the handshake goes through STARTTLS and the list that counts is the one announced after it
    with ch.scope("tls"):
        use_tls = cell is None and wl.flag("starttls", 1, 4)
        pre_idx = wl.int("pre", len(al)) if use_tls else 0
    if use_tls:
        cfg = ServerConfig(starttls=True, sasl_pre=al[pre_idx], sasl_post=announced if announced is not None else [], users={login: password})
        if announced is None:
            cfg.sasl_post = False        # SASL announced in clear text, no SASL line at all after the handshake
            if cfg.sasl_pre is None:
                cfg.sasl_pre = ["PLAIN"]
    else:
        cfg = ServerConfig(sasl_pre=announced, users={login: password})
    world = World(ch, cfg, client_impl=config.get("client", "real"), read_size=rsz, read_timeout=5)
    srv = world.server
    srv.data_variation = True      # challenges may be sent as literals
    srv.cap_variation = True
    with ch.scope("srvcfg"):
        srv.oauth_challenge_on_fail = ch.srv.flag("oauth_challenge_on_fail", 1, 2)
        srv.digest_final_in_ok = ch.srv.flag("digest_final_in_ok", 1, 2)
        srv.no_with_sasl_code = ch.srv.flag("no_with_sasl_code", 1, 2)
        srv.login_early_reject = verdict == "reject" and ch.srv.flag("login_early_reject", 1, 2)
    creds_problem = [None]
    current_verdict = [verdict]

    def auth_hook(conn, creds, ok):
        # compare what the server decoded with what the caller passed
        L, P, Z = login.encode("utf-8"), password.encode("utf-8"), authz.encode("utf-8")
        mech = conn.state.sasl["mech"]
        if mech == "PLAIN":
            if (creds["authcid"], creds["password"], creds["authzid"]) != (L, P, Z):
                creds_problem[0] = "PLAIN carried authzid=%r authcid=%r passwd=%r" % (creds["authzid"], creds["authcid"], creds["password"])
        elif mech == "LOGIN":
            if (creds["authcid"], creds["password"]) != (L, P):
                creds_problem[0] = "LOGIN carried user=%r password=%r" % (creds["authcid"], creds["password"])
        elif mech == "OAUTHBEARER":
            azs = {L}
            if Z:
                azs.add(Z)
            if creds["password"] != P or creds["authzid"] not in azs:
                creds_problem[0] = "OAUTHBEARER carried a=%r token=%r" % (creds["authzid"], creds["password"])
        elif mech == "DIGEST-MD5":
            d = creds["digest"]
            try:
                exp = SimServer.digest_response(
                    L, d.get("realm", "").encode("utf-8"), P, cfg.nonce.encode(), d.get("cnonce", "").encode("utf-8"),
                    b"00000001", b"auth", d.get("digest-uri", "").encode("utf-8"), Z if Z else None).decode()
            except Exception as e:   # pragma: no cover
                exp = "<%s>" % e
            problems = []
            if d.get("username", "").encode("utf-8") != L:
                problems.append("username=%r" % d.get("username"))
            if (d.get("authzid") or "").encode("utf-8") != Z:
                problems.append("authzid=%r" % d.get("authzid"))
            if d.get("response") != exp:
                problems.append("response=%r (expected %r for the caller's password)" % (d.get("response"), exp))
            if d.get("realm", "") != cfg.realm:
                problems.append("realm=%r (the server offered %r)" % (d.get("realm"), cfg.realm))
            if d.get("nonce") != cfg.nonce or d.get("nc") != "00000001" or d.get("qop", "auth") != "auth":
                problems.append("nonce/nc/qop=%r/%r/%r" % (d.get("nonce"), d.get("nc"), d.get("qop")))
            if not d.get("digest-uri", "").startswith("sieve/"):
                problems.append("digest-uri=%r" % d.get("digest-uri"))
            if problems:
                creds_problem[0] = "DIGEST-MD5 response carried " + ", ".join(problems)
        if creds_problem[0]:
            return False
        return current_verdict[0] == "accept"

    srv.auth_hook = auth_hook
    if verdict == "forced-no":
        with ch.scope("srvcfg"):
            at_verdict = ch.srv.flag("no_at_verdict", 1, 2)
        if at_verdict:
            # refused at the very end of the exchange (possibly with final SASL data attached)
            srv.fault_hook = lambda conn, dec, scope: (F_NO if dec == "<auth-verdict>" else None)
        else:
            srv.fault_hook = lambda conn, dec, scope: (F_NO if (not isinstance(dec, str) and dec.verb == b"AUTHENTICATE") else None)
    failure = None

    asked_again = [None]

    def attempt(client, scope, announced):
        """One connect() and its oracle; returns Failure | None."""
        nseen = len(srv.sasl_seen)
        nviol = len(srv.violations)
        creds_problem[0] = None
        with ch.scope(scope + ".digest"):
            # what the digest-challenge offers changes from one connection to the next: a realm, another realm, none; the
            # usual qop, a choice, or only a protection the client does not implement (then the server refuses the response)
            cfg.realm = ["sim.example", "", "other.example", "sim.example"][ch.srv.int("realm", 4)]
            cfg.digest_qop = ["auth", "auth,auth-int", "auth-int", "auth-int,auth-conf"][ch.srv.weighted("qop", [6, 2, 1, 1])]
        with ch.scope(scope):
            o = world.call(client, "connect", login, password, authz_id=authz, authmech=authmech, starttls=use_tls)
        seen = srv.sasl_seen[nseen:]
        if announced is None and asked_again[0] is not None and any(
                r.verb == b"CAPABILITY" and r.status == b"OK" and r.call_id == o.call_id for r in srv.log):
            # the spontaneous post-TLS listing was refused, but the client asked with CAPABILITY and was told
            announced = asked_again[0]
        exp = expected_mech(announced, authmech)
        sent_auth = [r for r in srv.log if r.verb == b"AUTHENTICATE" and r.call_id == o.call_id]
        label = "%s connect(%r, %r, authz_id=%r, authmech=%r) against SASL %r" % (scope, login, password, authz, authmech, announced)
        viol = srv.violations[nviol:]
        accepted = any(s.get("accepted") for s in seen)
        if o.kind == "exc" and o.exc_type != "Error":
            return Failure(PROP, "C16.exception", "%s raised %s(%r)" % (label, o.exc_type, o.exc_msg), {})
        if o.kind == "hang":
            return Failure(PROP, "C16.exception", "%s never returned (%s)" % (label, o.exc_msg), {})
        if len(sent_auth) > 1:
            return Failure(PROP, "C16.mech", "%s sent %d AUTHENTICATE commands (%r)" % (
                label, len(sent_auth), [s["mech"] for s in seen]), {})
        if not sent_auth:
            if None not in exp:
                return Failure(PROP, "C16.mech", "%s sent no AUTHENTICATE although %r qualifies" % (label, sorted(x for x in exp if x)), {})
            if any(b"AUTHENTICATE" in w[3].upper() for w in o.writes):
                return Failure(PROP, "C16.sent-when-none-qualifies", "%s wrote %r" % (label, [w[3] for w in o.writes]), {})
            if o.kind == "ret" and o.value is True:
                return Failure(PROP, "C16.result", "%s returned True without authenticating" % label, {})
            if bool(getattr(client, "authenticated", False)):
                return Failure(PROP, "C16.result", "%s: client.authenticated is True although nothing was sent" % label, {})
            return None
        if seen:
            s = seen[0]
        else:
            # refused before the exchange started (forced NO): only the mechanism is known
            mname = sent_auth[0].args[0].decode("utf-8", "replace").upper()
            s = {"mech": mname, "unannounced": announced is None or mname not in announced}
        if s.get("unannounced"):
            return Failure(PROP, "C16.unannounced" if exp != {None} else "C16.sent-when-none-qualifies",
                           "%s used %s, which the server did not announce" % (label, s["mech"]), {})
        if s["mech"] not in exp:
            clause = "C16.sent-when-none-qualifies" if exp == {None} else "C16.mech"
            return Failure(PROP, clause, "%s used %s; the rule prescribes %r" % (label, s["mech"], sorted(str(x) for x in exp)), {})
        if creds_problem[0]:
            return Failure(PROP, "C16.creds", "%s: %s" % (label, creds_problem[0]), {})
        if viol:
            return Failure(PROP, "C16.creds", "%s: the server could not decode the exchange: %s %r" % (label, viol[0][2], viol[0][3]), {})
        if o.kind == "ret" and (o.value is True) != accepted:
            return Failure(PROP, "C16.result", "%s returned %r but the server %s" % (
                label, o.value, "accepted" if accepted else "refused"), {})
        if o.kind == "exc" and accepted:
            return Failure(PROP, "C16.result", "%s raised %s(%r) although the server accepted" % (label, o.exc_type, o.exc_msg), {})
        if current_verdict[0] == "accept" and s.get("accepted") is None and seen:
            return Failure(PROP, "C16.result", "%s: the server was willing to accept but the client abandoned the exchange after %d step(s): %r" % (
                label, s.get("steps", 0), o), {})
        if bool(getattr(client, "authenticated", accepted)) != accepted:
            return Failure(PROP, "C16.result", "%s: client.authenticated=%r but the server %s" % (
                label, client.authenticated, "accepted" if accepted else "refused"), {})
        res.count("mech:" + s["mech"])
        return None

    with world:
        client = world.new_client()
        # in some STARTTLS runs the server answers the handshake with a refusal instead of a new capability listing: then
        # nothing is announced on this connection and nothing qualifies, whatever was announced in clear text
        refused_caps = False
        if use_tls:
            with ch.scope("tls"):
                refused_caps = ch.srv.flag("postcaps_refused", 1, 5)
        if refused_caps:
            srv.postcaps_hook = lambda conn: "no"
            asked_again[0] = announced
            res.count("fault:post-tls-listing-refused")
        failure = attempt(client, "op#0", None if refused_caps else announced)
        srv.postcaps_hook = None
        asked_again[0] = None
        if failure is None:
            # a second connection from the same object to a server that now announces something else: nothing learnt
            # from the first connection may leak into the second
            with ch.scope("second"):
                again = wl.flag("again", 1, 2)
                a2 = wl.int("announced2", len(al))
                v2 = wl.int("verdict2", 2)
            if again and verdict != "forced-no":
                # the first connection is simply lost (no logout); the server's verdict on the second one is its own
                current_verdict[0] = ["accept", "reject"][v2]
                srv.login_early_reject = srv.login_early_reject and current_verdict[0] == "reject"
            if again:
                if use_tls:
                    cfg.sasl_post = al[a2] if al[a2] is not None else False
                else:
                    cfg.sasl_pre = al[a2]
                failure = attempt(client, "op#1", al[a2])
                res.count("second_connects")
    res.digest = world.digest()
    res.sim_time = world.clock.now
    cl = classes_of([login, password, authz])
    res.count("verdict:" + verdict)
    if cell is not None:
        res.count("grid_cells")
    nontrivial = cl or announced != ["PLAIN"] or authmech is not None
    if nontrivial:
        res.sigs.add("%s|%s|%s|%s" % (",".join(announced) if announced is not None else "<none>", authmech, verdict, ",".join(sorted(cl))))
    if res.trace is not None:
        res.trace.extend(render_events(world.net.events))
    res.failure = failure


def jobs(tier, seed, scale=1.0):
    cells = all_cells()
    out = []
    B = 200
    reps = 2 if tier == "quick" else 8
    for rep in range(reps):
        for i in range(0, len(cells), B):
            out.append({"kind": "grid", "lo": i, "hi": min(len(cells), i + B), "rep": rep})
    n = int((20000 if tier == "quick" else 2000000) * scale)
    for i in range(0, n, B):
        out.append({"kind": "random", "i": i, "n": min(B, n - i)})
    return out


def run_job(job, ctx):
    import sys
    from simkit.core import run_scenario
    from simkit.runner import Agg, judge
    me = sys.modules[__name__]
    agg = Agg()
    base = dict(ctx.get("config", {}))
    if job["kind"] == "grid":
        cells = all_cells()
        for i in range(job["lo"], job["hi"]):
            config = dict(base)
            config["cell"] = list(cells[i])
            seed = hash64(ctx["seed"], PROP, "grid", i, job["rep"])
            r = run_scenario(me, config, seed=seed, trace=(i == 7 and job["rep"] == 0))
            if judge(me, agg, config, seed, r, ctx, sample=(i == 7 and job["rep"] == 0)):
                break
        return agg
    for k in range(job["n"]):
        seed = hash64(ctx["seed"], PROP, "random", job["i"] + k)
        r = run_scenario(me, base, seed=seed)
        if judge(me, agg, base, seed, r, ctx):
            break
    return agg


def evidence_extra(tier, counts, sigs):
    return {"grid_cells_total": len(all_cells()), "grid_cell_runs": counts.get("grid_cells", 0)}
