"""C17 - script names and bodies come back exactly as the server holds them.

The store is filled server-side with names and bodies biased to protocol
look-alikes; every value is served in the encodings RFC 5804 permits for it
(quoted with escapes / literal), under every delivery policy.
"""

from simkit import gen
from simkit.core import Failure
from simkit.chooser import hash64
from simkit.mserver import ServerConfig, name_ok
from simkit.world import World
from simkit.tracefmt import render_events

PROP = "C17"
LEVEL = "exploration"
BUDGET = {"quick": 120, "thorough": 900}
RULE = ("Server-side store of 0-5 scripts with names from a look-alike list (OK, {3}, ACTIVE, 'a\" ACTIVE', x\\y, non-ASCII, "
        "spaces ...) and bodies built from look-alike lines (OK/NO/BYE, {5}, quoted, blank lines, CRLF/LF/mixed, no final "
        "newline, empty, multi-byte); one listscripts and one getscript per script, each string served quoted or literal "
        "(drawn), listing order drawn, recv segmentation drawn; in a fifth of the random runs the store first holds one damaged "
        "item (a body or a name that is not UTF-8) which the client touches once before it is removed. The first jobs stratify (name, encoding) and (body line, "
        "position, encoding). Non-trivial: the value contained a look-alike / needed escaping / was served as a literal name "
        "or quoted body. Distinct = (call, value class, encoding).")
COMPONENTS = {"real": ["sievelib.managesieve.Client"],
              "stub": ["socket/ssl modules (simkit.net)", "ManageSieve server (simkit.mserver)"]}
ASSUMPTIONS = ["script names follow RFC 5804 section 1.6 (no control characters); bodies are UTF-8",
               "a bare CR is not generated as a line ending"]


def text_lines(s):
    ls = s.split("\n")
    ls = [l[:-1] if l.endswith("\r") else l for l in ls]
    while ls and ls[-1] == "":
        ls.pop()
    return ls


def run(ch, config, res):
    wl = ch.wl
    strat = config.get("strat")
    corrupt = 0
    with ch.scope("run"):
        rsz = [4096, 1, 7, 64][wl.weighted("read_size", [6, 1, 1, 1])]
        n = wl.int("nscripts", 6)
    cfg = ServerConfig(max_scripts=50)
    world = World(ch, cfg, client_impl=config.get("client", "real"), read_size=rsz)
    srv = world.server
    srv.order_variation = True
    srv.cap_variation = True        # in particular: the server calls itself one of many things
    srv.text_lit_variation = True
    with ch.scope("run"):
        refusal_first = wl.flag("refusal_first", 1, 2)
        # in half of the random runs status replies take every shape RFC 5804 allows (codes, literal texts whose lines
        # look like data or like status lines): a completion that is left half-read shows in the answers that follow
        srv.status_variation = strat is None and wl.flag("status_shapes", 1, 2)
    forced_lit = None
    with ch.scope("store"):
        if strat is not None:
            kind = strat[0]
            if kind == "name":
                nm = gen.LOOKALIKE_NAMES[strat[1]]
                srv.scripts[nm.encode("utf-8")] = b"keep;\r\n"
                if strat[2]:
                    srv.active = nm.encode("utf-8")
                srv.scripts[b"other"] = b"stop;\r\n"
                forced_lit = bool(strat[3])
            elif kind == "line":
                ln = gen.LINE_POOL[strat[1]]
                pos, eol, final = strat[2], strat[3], strat[4]
                lines = [b"keep;", b"stop;"]
                lines.insert(pos, ln)
                e = gen.EOLS[eol]
                body = e.join(lines) + (e if final else b"")
                if strat[5] == 1:
                    body = ln          # the line alone, no newline: quotable
                srv.scripts[b"s"] = body
                forced_lit = bool(strat[6])
        else:
            for i in range(n):
                nm = gen.LOOKALIKE_NAMES[wl.int("name", len(gen.LOOKALIKE_NAMES))].encode("utf-8")
                srv.scripts[nm] = gen.body(wl, "body")
            if srv.scripts and wl.flag("active", 2, 3):
                srv.active = wl.pick("activeidx", list(srv.scripts))
            # damaged stored data (a legacy ISO-8859-1 script, or a name that is not UTF-8): what the client makes of the
            # damaged item itself is not constrained; once it is gone everything else must still come back exactly
            corrupt = wl.weighted("corrupt", [8, 1, 1])
    for nm in srv.scripts:
        assert name_ok(nm), nm
    BAD_BODY_NAME, BAD_NAME = b"legacy-latin1", b"caf\xe9-latin1"
    if strat is None and corrupt == 1:
        srv.scripts[BAD_BODY_NAME] = b"# r\xe9ponse automatique\r\nkeep;\r\n"
    elif strat is None and corrupt == 2:
        srv.scripts[BAD_NAME] = b"keep;\r\n"
    armed = [False]
    if forced_lit is not None:
        srv.lit_hook = lambda kind, val: (forced_lit if (kind == "data" and armed[0]) else None)
    failure = None
    with world:
        client = world.new_client()
        with ch.scope("op#0"):
            o = world.call(client, "connect", "user", "password")
        if o.kind == "ret" and o.value is True:
            armed[0] = True
            if strat is None and corrupt:
                with ch.scope("damaged"):
                    if corrupt == 1:
                        world.call(client, "getscript", BAD_BODY_NAME.decode())
                        del srv.scripts[BAD_BODY_NAME]
                    else:
                        world.call(client, "listscripts")
                        del srv.scripts[BAD_NAME]
                res.count("fault:damaged-stored-%s" % ("body" if corrupt == 1 else "name"))

            def check_listing(scope, again=""):
                with ch.scope(scope):
                    o = world.call(client, "listscripts")
                exp_active = srv.active.decode("utf-8") if srv.active else None
                exp_others = sorted(k.decode("utf-8") for k in srv.scripts if k != srv.active)
                rec = [r for r in srv.log if r.call_id == o.call_id]
                raw = rec[-1].raw if rec else b""
                if o.kind != "ret" or not isinstance(o.value, tuple) or len(o.value) != 2:
                    return Failure(PROP, "C17.names", "listscripts%s %r although the server answered %r" % (again, o, raw), {"reply": raw}), raw
                act, others = o.value
                if act != exp_active:
                    return Failure(PROP, "C17.active", "listscripts%s reports active=%r, the server's active script is %r (reply %r)" % (
                        again, act, exp_active, raw), {"reply": raw}), raw
                if sorted(others) != exp_others:
                    return Failure(PROP, "C17.names", "listscripts%s reports %r, the server holds %r (reply %r)" % (
                        again, sorted(others), exp_others, raw), {"reply": raw}), raw
                return None, raw

            failure, raw = check_listing("op#1")
            if failure is None and strat is None and refusal_first:
                # a refused request in between (its text may come as a literal): what it reports is C09's business; the
                # answers that follow must not be disturbed by it
                with ch.scope("refused"):
                    world.call(client, "getscript", "no-such-script")
                res.count("refusals_in_between")
            for nm in srv.scripts:
                cls = "plain" if nm.isalnum() and nm.islower() else "lookalike"
                enc = "lit" if (b"{%d}" % len(nm)) in raw else "q"
                if cls != "plain" or enc == "lit":
                    res.sigs.add("list|%s|%s|%s" % (nm.decode("utf-8"), enc, "active" if nm == srv.active else "-"))
            i = 1
            for nm, stored in list(srv.scripts.items()):
                if failure is not None:
                    break
                i += 1
                with ch.scope("op#%d" % i):
                    o = world.call(client, "getscript", nm.decode("utf-8"))
                rec = [r for r in srv.log if r.call_id == o.call_id]
                raw = rec[-1].raw if rec else b""
                exp = [l.decode("utf-8") for l in gen.lines_of(stored)]
                if o.kind != "ret" or not isinstance(o.value, str):
                    failure = Failure(PROP, "C17.body", "getscript(%r) %r although the server holds %r and answered %r" % (
                        nm, o, stored, raw), {"reply": raw, "stored": stored})
                    break
                got = text_lines(o.value)
                if got != exp:
                    failure = Failure(PROP, "C17.body", "getscript(%r) returned lines %r, the server holds %r (reply %r)" % (
                        nm, got, exp, raw), {"reply": raw, "stored": stored})
                    break
                enc = "q" if raw.startswith(b'"') else "lit"
                shape = []
                if stored == b"":
                    shape.append("empty")
                if not stored.endswith(b"\n"):
                    shape.append("nofinal")
                if b"\r\n" in stored:
                    shape.append("crlf")
                if b"\n" in stored.replace(b"\r\n", b""):
                    shape.append("lf")
                first = gen.lines_of(stored)[:1]
                res.sigs.add("get|%s|%s|first=%s" % (enc, ",".join(shape), first[0][:12].decode("utf-8", "replace") if first else ""))
            # the same questions once more on the same connection: nothing may have been used up by the first answers
            if failure is None and o.kind == "ret":
                failure, _ = check_listing("again#1", " (second call on the same connection)")
                for j, (nm, stored) in enumerate(list(srv.scripts.items())[:2]):
                    if failure is not None:
                        break
                    with ch.scope("again#g%d" % j):
                        o2 = world.call(client, "getscript", nm.decode("utf-8"))
                    exp = [l.decode("utf-8") for l in gen.lines_of(stored)]
                    if o2.kind != "ret" or not isinstance(o2.value, str) or text_lines(o2.value) != exp:
                        failure = Failure(PROP, "C17.body", "second getscript(%r) on the same connection %r; the server holds %r" % (nm, o2, stored), {})
    res.digest = world.digest()
    res.sim_time = world.clock.now
    for k, v in world.net.stats.policy_counts.items():
        res.count("policy:" + k, v)
    for k, v in world.net.stats.probes.items():
        res.count("probe:" + k, v)
    if res.trace is not None:
        res.trace.extend(render_events(world.net.events))
    res.failure = failure


def strata():
    out = []
    for i in range(len(gen.LOOKALIKE_NAMES)):
        for active in (0, 1):
            for lit in (0, 1):
                out.append(["name", i, active, lit])
    for i in range(len(gen.LINE_POOL)):
        for pos in (0, 1, 2):
            for eol in (0, 1):
                for final in (0, 1):
                    for lit in (0, 1):
                        out.append(["line", i, pos, eol, final, 0, lit])
        for lit in (0, 1):
            out.append(["line", i, 0, 0, 0, 1, lit])
    return out


def jobs(tier, seed, scale=1.0):
    st = strata()
    out = []
    B = 100
    for i in range(0, len(st), B):
        out.append({"kind": "strat", "lo": i, "hi": min(len(st), i + B)})
    n = int((20000 if tier == "quick" else 2000000) * scale)
    for i in range(0, n, B):
        out.append({"kind": "random", "i": i, "n": min(B, n - i)})
    return out


def run_job(job, ctx):
    import sys
    from simkit.core import run_scenario
    from simkit.runner import Agg, judge
    me = sys.modules[__name__]
    agg = Agg()
    base = dict(ctx.get("config", {}))
    if job["kind"] == "strat":
        st = strata()
        for i in range(job["lo"], job["hi"]):
            # each stratum under three delivery modes: mixed, whole, 1-byte
            for rep in range(3):
                config = dict(base)
                config["strat"] = st[i]
                seed = hash64(ctx["seed"], PROP, "strat", i, rep)
                r = run_scenario(me, config, seed=seed)
                agg.counts["strata"] = agg.counts.get("strata", 0) + 1
                if judge(me, agg, config, seed, r, ctx):
                    return agg
        return agg
    for k in range(job["n"]):
        seed = hash64(ctx["seed"], PROP, "random", job["i"] + k)
        sample = job["i"] == 0 and k < 2
        r = run_scenario(me, base, seed=seed, trace=sample)
        if judge(me, agg, base, seed, r, ctx, sample=sample):
            break
    return agg
