"""C19 - what you put into a filter is what you read back.

Editing histories (disable / enable / update / move / restart-from-text)
over filters created from the supported condition and action forms; after
every step get_filter_conditions / get_filter_actions / get_filter_matchtype
of every filter are compared with what was supplied.
"""

from simkit.core import Failure
from simkit.chooser import hash64
from simkit import editor as E

PROP = "C19"
LEVEL = "exploration"
BUDGET = {"quick": 150, "thorough": 900}
RULE = ("Histories of 1-10 operations (add / update / disable / enable / move / remove / restart-from-text) over 4 names; "
        "definitions from the forms the property lists (header with string values, exists/notexists, size, envelope with "
        "lists, address with strings or lists, body :raw/:text, currentdate with and without :value, negated variants, 1-3 "
        "conditions, anyof/allof; actions with positional strings and value-less tags), values over text with commas, "
        "spaces, brackets, quotes, backslashes, control characters and non-ASCII; one operation in six is preceded by an add the factory refuses. After every step every filter is read back, on the live set, while disabled and "
        "after a restart. The value half is plain seeded generation. Non-trivial: a value with comma/space/bracket/non-ASCII, "
        "a negated condition, a disabled filter or a restart was involved. Distinct = (condition kinds incl. negation, "
        "action kinds, value classes, disabled?, restarted?).")
COMPONENTS = {"real": ["sievelib.factory.FiltersSet (add/update/get_filter_*)", "sievelib.commands args_as_tuple", "sievelib.parser.Parser (restart)"],
              "stub": []}
ASSUMPTIONS = ["numbers compare as their text (a reloaded size limit is text); list and tuple are the same thing at any level",
               "values do not start with a quote or (in actions) a colon; control characters, quotes, backslashes and newlines are included"]

NAMES = ["alpha", "beta", "gamma", "delta"]


def norm(x):
    if isinstance(x, (list, tuple)):
        return tuple(norm(y) for y in x)
    if isinstance(x, bool):
        return x
    if isinstance(x, int):
        return str(x)
    return x


def value_classes(values):
    out = set()
    for v in values:
        if "," in v:
            out.add("comma")
        if " " in v:
            out.add("space")
        if "[" in v or "]" in v:
            out.add("bracket")
        if any(ord(c) > 127 for c in v):
            out.add("nonascii")
    return out


class MF:
    def __init__(self, name, definition, values):
        self.name = name
        self.conds, self.acts, self.mt = definition
        self.values = values
        self.enabled = True


def check_readback(fs, model, label, restarted, scribbled=False):
    for m in model:
        tag = ""
        if not m.enabled:
            tag = ".disabled"
        if restarted:
            tag += ".reloaded"
        try:
            gc = fs.get_filter_conditions(m.name)
            ga = fs.get_filter_actions(m.name)
            gm = fs.get_filter_matchtype(m.name)
        except Exception as e:
            return Failure(PROP, "C19.cond" + tag, "%s: reading back filter %r raised %s: %s (supplied %r / %r)" % (
                label, m.name, type(e).__name__, e, m.conds, m.acts), {})
        if gc is None or norm(gc) != norm([E.canonical_condition(c) for c in m.conds]):
            return Failure(PROP, "C19.cond" + tag, "%s: filter %r: supplied conditions %r, read back %r" % (label, m.name, m.conds, gc), {})
        if ga is None or norm(ga) != norm(m.acts):
            return Failure(PROP, "C19.act" + tag, "%s: filter %r: supplied actions %r, read back %r" % (label, m.name, m.acts, ga), {})
        if gm != m.mt:
            return Failure(PROP, "C19.match" + tag, "%s: filter %r: supplied match type %r, read back %r" % (label, m.name, m.mt, gm), {})
        scribble(gc)
        scribble(ga)
    if scribbled is False:
        # what a caller does to the lists it was handed must not change what anybody reads back afterwards
        return check_readback(fs, model, label + " (after the caller modified the returned lists)", restarted, scribbled=True)
    return None


def scribble(x):
    if isinstance(x, list):
        for y in x:
            scribble(y)
        x.append("scribbled-by-caller")
    elif isinstance(x, tuple):
        for y in x:
            scribble(y)


def run(ch, config, res):
    from sievelib.factory import FiltersSet
    wl = ch.wl
    fs = FiltersSet("test")
    model = []
    failure = None
    restarted = False
    with ch.scope("run"):
        nops = 1 + wl.int("nops", 10)
    allvalues = []
    kinds = set()

    def find(n):
        for i, m in enumerate(model):
            if m.name == n:
                return i
        return -1

    i = 0
    while failure is None and i < nops:
        i += 1
        with ch.scope("op#%d" % i):
            k = wl.weighted("op", [6, 3, 3, 2, 1, 1, 2, 2]) if model else 0
            op = ["add", "update", "disable", "enable", "move", "remove", "restart", "retouch"][k]
            n = NAMES[wl.int("name", len(NAMES))]
            label = "op %d %s(%s)" % (i, op, n)
            if wl.flag("refused_first", 1, 6):
                # an add the factory refuses (see simkit.editor.BAD_DEFS), on a name that is not in use
                bconds_, bacts_, bmt_ = E.bad_definition(wl, "baddef")
                bn = NAMES[wl.int("badname", len(NAMES))]
                if find(bn) != -1 and wl.flag("refused_update", 1, 2):
                    # ... or an update of an existing filter (same name) that is refused: the filter keeps its content
                    rr = E.classify(lambda: fs.updatefilter(bn, bn, bconds_, bacts_, bmt_))
                else:
                    rr = E.classify(lambda: (fs.addfilter("never-added", bconds_, bacts_, bmt_), True)[1])
                res.count("refused_builds")
                if rr[0] == "ok":
                    res.count("ended:unsupported-description-accepted")
                    break
            if op in ("add", "update"):
                struct, values = E.gen_definition(wl, "def", "c19")
                conds, acts, mt = E.fill(struct, values)
                default_mt = mt == "anyof" and wl.flag("default_matchtype", 1, 2)
                n2 = NAMES[wl.int("name2", len(NAMES))] if op == "update" else None
                if op == "add":
                    rc = E.classify(lambda: (fs.addfilter(n, conds, acts, mt) if not default_mt else fs.addfilter(n, conds, acts), True)[1])
                else:
                    rc = E.classify(lambda: (fs.updatefilter(n, n2, conds, acts, mt) if not default_mt else fs.updatefilter(n, n2, conds, acts)))
                if rc[0].startswith("raised:"):
                    failure = Failure(PROP, "C19.cond", "%s: building %r raised %s: %s" % (label, (conds, acts, mt), rc[0][7:], rc[2]), {})
                    break
                if rc[0] == "ok":
                    if op == "add":
                        model.append(MF(n, (conds, acts, mt), values))
                    else:
                        m = model[find(n)]
                        m.name, m.conds, m.acts, m.mt, m.values = n2, conds, acts, mt, values
                    allvalues.extend(values)
                    for c in conds:
                        kinds.add("c:%s%s" % (E.cond_kind(c), "!" if E.cond_negated(c) else ""))
                    for a in acts:
                        kinds.add("a:" + a[0])
            elif op == "retouch":
                # the stored definition submitted again with exactly one thing changed: the match type, or the negation of
                # its first header condition ("nothing changed" short-cuts must notice the one thing that did)
                j = find(n)
                if j == -1:
                    continue
                m = model[j]
                conds, acts, mt = list(m.conds), m.acts, m.mt
                what = wl.int("what", 2)
                if what == 0:
                    mt = "allof" if mt == "anyof" else "anyof"
                else:
                    for ci, c in enumerate(conds):
                        if E.cond_kind(c) == "header" and isinstance(c[1], str) and c[1] in (":is", ":contains", ":matches", ":notis", ":notcontains", ":notmatches"):
                            flipped = (":not" + c[1][1:]) if not c[1].startswith(":not") else (":" + c[1][4:])
                            conds[ci] = (c[0], flipped) + tuple(c[2:])
                            break
                    else:
                        mt = "allof" if mt == "anyof" else "anyof"
                rc = E.classify(lambda: fs.updatefilter(n, n, conds, acts, mt))
                if rc[0].startswith("raised:"):
                    failure = Failure(PROP, "C19.cond", "%s: re-submitting %r raised %s: %s" % (label, (conds, acts, mt), rc[0][7:], rc[2]), {})
                    break
                if rc[0] == "ok":
                    m.conds, m.mt = conds, mt
                res.count("retouches")
            elif op == "disable":
                E.classify(lambda: fs.disablefilter(n))
                if find(n) != -1:
                    model[find(n)].enabled = False
            elif op == "enable":
                E.classify(lambda: fs.enablefilter(n))
                if find(n) != -1:
                    model[find(n)].enabled = True
            elif op == "move":
                d = ["up", "down"][wl.int("dir", 2)]
                rc = E.classify(lambda: fs.movefilter(n, d))
                if rc[0] == "ok":
                    j = find(n)
                    m = model.pop(j)
                    model.insert(j - 1 if d == "up" else j + 1, m)
            elif op == "remove":
                rc = E.classify(lambda: fs.removefilter(n))
                if rc[0] == "ok":
                    del model[find(n)]
            elif op == "restart":
                f2, text, err = E.restart_local(fs)
                if f2 is None:
                    failure = Failure(PROP, "C19.cond.reloaded", "%s: the rendered set does not parse (%s):\n%s" % (label, err, text), {})
                    break
                fs = f2
                restarted = True
                res.count("restarts")
        failure = check_readback(fs, model, label, restarted)
    res.digest = "%016x" % hash64(str(i), repr([(m.name, m.conds, m.acts) for m in model]))
    res.count("ops", i)
    cl = value_classes(allvalues)
    dis = any(not m.enabled for m in model)
    if cl or dis or restarted or any(k.endswith("!") for k in kinds):
        res.sigs.add("%s|%s|%s|%s" % (",".join(sorted(kinds)), ",".join(sorted(cl)), dis, restarted))
    if res.trace is not None:
        res.trace.append(str(fs))
        res.trace.append(repr([(m.name, m.conds, m.acts, m.mt, m.enabled) for m in model]))
    res.failure = failure


def jobs(tier, seed, scale=1.0):
    n = int((20000 if tier == "quick" else 2000000) * scale)
    B = 100
    return [{"kind": "random", "i": i, "n": min(B, n - i)} for i in range(0, n, B)]


def run_job(job, ctx):
    import sys
    from simkit.core import run_scenario
    from simkit.runner import Agg, judge
    me = sys.modules[__name__]
    agg = Agg()
    base = dict(ctx.get("config", {}))
    for k in range(job["n"]):
        seed = hash64(ctx["seed"], PROP, "random", job["i"] + k)
        sample = job["i"] == 0 and k < 2
        r = run_scenario(me, base, seed=seed, trace=sample)
        if judge(me, agg, base, seed, r, ctx, sample=sample):
            break
    return agg
