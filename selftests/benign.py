"""Negative controls: behaviour-preserving or property-preserving changes a
maintainer might make.  No check may raise an alarm on any of them (they may
fail the pinned suite where that suite pins incidental text; what matters here
is that the *property* still holds)."""

MS = "sievelib/managesieve.py"
FA = "sievelib/factory.py"
CO = "sievelib/commands.py"

BENIGN = [
    {"name": "b-readline-find-with-correct-offset", "props": ["C05", "C15", "C17"], "file": MS,
     "old": "        ret = b\"\"\n        while True:\n            try:\n                pos = self.__read_buffer.index(CRLF)\n                ret = self.__read_buffer[:pos]\n                self.__read_buffer = self.__read_buffer[pos + len(CRLF) :]\n                break\n            except ValueError:\n                pass\n            try:\n                nval = self.sock.recv(self.read_size)\n                self.__dprint(nval)\n                if not len(nval):\n                    raise Error(\"Connection closed by server\")\n                self.__read_buffer += nval\n",
     "new": "        ret = b\"\"\n        start = 0\n        while True:\n            pos = self.__read_buffer.find(CRLF, start)\n            if pos != -1:\n                ret = self.__read_buffer[:pos]\n                self.__read_buffer = self.__read_buffer[pos + len(CRLF) :]\n                break\n            start = max(0, len(self.__read_buffer) - 1)\n            try:\n                nval = self.sock.recv(self.read_size)\n                self.__dprint(nval)\n                if not len(nval):\n                    raise Error(\"Connection closed by server\")\n                self.__read_buffer += nval\n"},
    {"name": "b-getscript-keeps-crlf-and-final-newline", "props": ["C17", "C15", "C14", "C05", "C11"], "file": MS,
     "old": "            return \"\\n\".join([line.decode(\"utf-8\") for line in lines])\n",
     "new": "            return \"\".join([line.decode(\"utf-8\") + \"\\r\\n\" for line in lines])\n"},
    {"name": "b-listscripts-sorted", "props": ["C17", "C15", "C14", "C05"], "file": MS,
     "old": "        self.__dprint(ret)\n        return (active_script, ret)\n",
     "new": "        self.__dprint(ret)\n        return (active_script, sorted(ret))\n"},
    {"name": "b-errcode-errmsg-as-str", "props": ["C09", "C05", "C15"], "file": MS,
     "old": "                if m.group(1) == b\"NO\":\n                    self.errcode = errcode\n                    self.errmsg = errmsg\n",
     "new": "                if m.group(1) == b\"NO\":\n                    self.errcode = errcode.decode(\"utf-8\")\n                    self.errmsg = errmsg.decode(\"utf-8\")\n"},
    {"name": "b-rename-emulation-checks-space-first", "props": ["C14", "C08", "C15", "C09"], "file": MS,
     "old": "        if not self.putscript(newname, oldscript):\n            return False\n",
     "new": "        if not self.havespace(newname, len(oldscript.encode(\"utf-8\"))):\n            return False\n        if not self.putscript(newname, oldscript):\n            return False\n"},
    {"name": "b-connect-closes-previous-socket", "props": ["C10", "C15", "C16", "C08"], "file": MS,
     "old": "        self.authenticated = False\n        self.__read_buffer = b\"\"\n        self.__capabilities = {}\n        try:\n",
     "new": "        self.authenticated = False\n        self.__read_buffer = b\"\"\n        self.__capabilities = {}\n        if self.sock is not None:\n            self.sock.close()\n            self.sock = None\n        try:\n"},
    {"name": "b-names-always-sent-as-literals", "props": ["C08", "C15", "C14", "C17"], "file": MS,
     "old": "                if b\"\\r\" in a or b\"\\n\" in a or b\"\\0\" in a:\n",
     "new": "                if True:\n"},
    {"name": "b-blank-line-between-filters", "props": ["C06", "C11", "C12", "C19", "C13"], "file": FA,
     "old": "            f[\"content\"].tosieve(target=target)\n\n\nif __name__",
     "new": "            f[\"content\"].tosieve(target=target)\n            target.write(\"\\n\")\n\n\nif __name__"},
    {"name": "b-disable-already-disabled-returns-false", "props": ["C12", "C11", "C19", "C06"], "file": FA,
     "old": "                # already disabled, don't wrap it twice\n                f[\"enabled\"] = False\n                return True\n",
     "new": "                # already disabled, don't wrap it twice\n                f[\"enabled\"] = False\n                return False\n"},
    {"name": "b-read-back-returns-lists", "props": ["C19"], "file": FA,
     "old": "                conditions.append(args)\n",
     "new": "                conditions.append(list(args))\n"},
    {"name": "b-requires-sorted-on-output", "props": ["C06", "C11", "C13"], "file": FA,
     "old": "        reqcmd.check_next_arg(\"stringlist\", self.requires)\n",
     "new": "        reqcmd.check_next_arg(\"stringlist\", sorted(self.requires))\n"},
    {"name": "b-list-items-separated-by-comma-only", "props": ["C06", "C11", "C19", "C12", "C13"], "file": CO,
     "old": "                                \", \".join(\n                                    [\n",
     "new": "                                \",\".join(\n                                    [\n"},
]
