"""Sensitivity mutants: realistic regressions that keep the pinned suite green.
Each is applied to a scratch copy of /repo; the named check must report a
VIOLATION.  ``old`` must occur exactly once in ``file``."""

MS = "sievelib/managesieve.py"
FA = "sievelib/factory.py"
PA = "sievelib/parser.py"
CO = "sievelib/commands.py"

MUTANTS = [
    {"name": "c05-drop-carry-over", "prop": "C05", "file": MS,
     "old": "                self.__read_buffer += nval\n",
     "new": "                self.__read_buffer = nval\n"},
    {"name": "c05-literal-single-recv", "prop": "C05", "file": MS,
     "old": "            buf += data\n            size -= len(data)\n",
     "new": "            buf += data\n            size = 0\n"},
]
