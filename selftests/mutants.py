"""Sensitivity mutants: realistic regressions that keep the pinned suite green.
Each is applied to a scratch copy of /repo; the named check must report a
VIOLATION.  ``old`` must occur exactly once in ``file``."""

MS = "sievelib/managesieve.py"
FA = "sievelib/factory.py"
PA = "sievelib/parser.py"
CO = "sievelib/commands.py"

MUTANTS = [
    {"name": "c05-drop-carry-over", "prop": "C05", "file": MS,
     "old": "                self.__read_buffer += nval\n",
     "new": "                self.__read_buffer = nval\n"},
    {"name": "c05-literal-single-recv", "prop": "C05", "file": MS,
     "old": "            buf += data\n            size -= len(data)\n",
     "new": "            buf += data\n            size = 0\n"},
    {"name": "c09-bye-not-raised", "prop": "C09", "file": MS,
     "old": "                if m.group(1) == b\"BYE\":\n                    raise Error(\"Connection closed by server\")\n",
     "new": ""},
    {"name": "c09-listing-ignores-no", "prop": "C09", "file": MS,
     "old": "        code, data, listing = self.__send_command(\"LISTSCRIPTS\", withcontent=True)\n        if code == \"NO\":\n            return None\n",
     "new": "        code, data, listing = self.__send_command(\"LISTSCRIPTS\", withcontent=True)\n"},
    {"name": "c09-errmsg-keeps-escapes", "prop": "C09", "file": MS,
     "old": "            errmsg = re.sub(rb\"\\\\(.)\", rb\"\\1\", text[1:-1])\n",
     "new": "            errmsg = text[1:-1]\n"},
]
