"""Keyed choice tape.

Every decision the simulated world makes goes through a Chooser.  A draw
belongs to a *family* ("net", "srv", "wl", "sched") and to a *scope* (a string
naming the workload step / reply that caused it); inside one (family, scope)
draws are positional.  Value 0 is the benign choice everywhere.

Modes
-----
generate : the stream of (family, scope) is random.Random(hash64(seed, family,
           scope)) read through getrandbits only.
replay   : backed by a recorded tape; missing scope / label mismatch / draw past
           the end / value out of range -> 0.

In both modes the draws actually made are recorded into ``self.tape`` (the
*effective* tape), so a replay yields a normalised tape with unused entries
dropped.
"""

import hashlib
import random
from contextlib import contextmanager


def hash64(*parts):
    s = "\x1f".join(str(p) for p in parts).encode("utf-8")
    return int.from_bytes(hashlib.sha256(s).digest()[:8], "big")


class _Stream:
    __slots__ = ("rng",)

    def __init__(self, seed, family, scope):
        self.rng = random.Random(hash64(seed, family, scope))

    def below(self, n):
        if n <= 1:
            return 0
        k = (n - 1).bit_length()
        gb = self.rng.getrandbits
        while True:
            v = gb(k)
            if v < n:
                return v


class Family:
    """View of a chooser bound to one family."""

    __slots__ = ("ch", "name")

    def __init__(self, ch, name):
        self.ch = ch
        self.name = name

    def int(self, label, n):
        return self.ch.draw(self.name, label, n)

    def flag(self, label, num, den):
        """True with probability num/den; value 0 (False) is benign."""
        v = self.ch.draw(self.name, label, den)
        return 1 <= v <= num

    def pick(self, label, seq):
        return seq[self.ch.draw(self.name, label, len(seq))]

    def weighted(self, label, weights):
        """Index drawn according to integer weights; index 0 should be the
        benign alternative.  The recorded value is the index."""
        return self.ch.draw_weighted(self.name, label, weights)

    def text(self, label, classes, maxlen, minlen=0):
        """String drawn class-first: for each character first the class index
        (0 = plain), then the character inside the class."""
        n = minlen + self.int(label + ".len", maxlen - minlen + 1)
        out = []
        for _ in range(n):
            ci = self.int(label + ".cls", len(classes))
            cls = classes[ci]
            out.append(cls[self.int(label + ".chr", len(cls))])
        return "".join(out)


class Chooser:
    def __init__(self, seed=0, tape=None, masks=(), zero=()):
        """
        :param tape: None -> generate mode; dict family->scope->[[label,n,v]..]
                     -> replay mode
        :param masks: families forced to 0
        :param zero: iterable of (family, label, value) triples forced back to 0
                     (counterfactual attribution of known findings)
        """
        self.seed = seed
        self.src = tape
        self.masks = set(masks)
        self.zero = set(tuple(z) for z in zero)
        self.tape = {}
        self._pos = {}
        self._streams = {}
        self._scope = []
        self._scope_name = ""
        self.net = Family(self, "net")
        self.srv = Family(self, "srv")
        self.wl = Family(self, "wl")
        self.sched = Family(self, "sched")

    # -- scopes -----------------------------------------------------------
    @contextmanager
    def scope(self, name):
        self._scope.append(name)
        self._scope_name = ".".join(self._scope)
        try:
            yield
        finally:
            self._scope.pop()
            self._scope_name = ".".join(self._scope)

    @contextmanager
    def abs_scope(self, name):
        saved = self._scope
        self._scope = [name]
        self._scope_name = name
        try:
            yield
        finally:
            self._scope = saved
            self._scope_name = ".".join(saved)

    @property
    def scope_name(self):
        return self._scope_name

    # -- draws ------------------------------------------------------------
    def _raw(self, family, label, n):
        scope = self._scope_name
        key = (family, scope)
        if family in self.masks:
            return 0
        if self.src is None:
            st = self._streams.get(key)
            if st is None:
                st = self._streams[key] = _Stream(self.seed, family, scope)
            return st.below(n)
        lst = self.src.get(family, {}).get(scope)
        i = self._pos.get(key, 0)
        self._pos[key] = i + 1
        if lst is None or i >= len(lst):
            return 0
        ent = lst[i]
        if ent[0] != label:
            return 0
        v = ent[2]
        if not isinstance(v, int) or v < 0 or v >= n:
            return 0
        return v

    def _record(self, family, label, n, v):
        fam = self.tape.get(family)
        if fam is None:
            fam = self.tape[family] = {}
        lst = fam.get(self._scope_name)
        if lst is None:
            lst = fam[self._scope_name] = []
        lst.append([label, n, v])

    def draw(self, family, label, n):
        if n <= 0:
            raise ValueError("draw %s/%s with n=%r" % (family, label, n))
        v = self._raw(family, label, n)
        if v and (family, label, v) in self.zero:
            v = 0
        self._record(family, label, n, v)
        return v

    def draw_weighted(self, family, label, weights):
        n = len(weights)
        if family in self.masks:
            self._record(family, label, n, 0)
            return 0
        if self.src is None:
            total = sum(weights)
            scope = self._scope_name
            key = (family, scope)
            st = self._streams.get(key)
            if st is None:
                st = self._streams[key] = _Stream(self.seed, family, scope)
            r = st.below(total)
            v = 0
            for i, w in enumerate(weights):
                if r < w:
                    v = i
                    break
                r -= w
        else:
            v = self._raw(family, label, n)
            if v and weights[v] == 0:
                v = 0
        if v and (family, label, v) in self.zero:
            v = 0
        self._record(family, label, n, v)
        return v


# -- tape utilities ----------------------------------------------------------

def tape_copy(tape):
    return {f: {s: [list(e) for e in l] for s, l in sc.items()} for f, sc in tape.items()}


def tape_nonzero(tape):
    """List of (family, scope, index, label, value) for the non-zero draws."""
    out = []
    for f in sorted(tape):
        for s in sorted(tape[f]):
            for i, e in enumerate(tape[f][s]):
                if e[2]:
                    out.append((f, s, i, e[0], e[2]))
    return out


def tape_size(tape):
    """Ordering used by the minimiser: fewer non-zero draws, then smaller sum."""
    nz = tape_nonzero(tape)
    return (len(nz), sum(x[4] for x in nz))
