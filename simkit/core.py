"""Common run plumbing: failures, run results, executing one run of a scenario
in generate or replay mode."""

import hashlib
import json

from .chooser import Chooser
from .net import SeamGap


class HarnessError(Exception):
    """Something is wrong with the machinery, not with the code under test."""


class Failure:
    def __init__(self, prop, clause, detail, data=None):
        self.prop = prop
        self.clause = clause
        self.detail = detail
        self.data = data or {}

    def key(self):
        return (self.prop, self.clause)

    def to_json(self):
        return {"property": self.prop, "clause": self.clause, "detail": self.detail,
                "data": jsonable(self.data)}

    def __repr__(self):
        return "Failure(%s: %s)" % (self.clause, self.detail)


def jsonable(x):
    if isinstance(x, (str, int, float, bool)) or x is None:
        return x
    if isinstance(x, (bytes, bytearray)):
        return {"$b": bytes(x).decode("latin-1")}
    if isinstance(x, dict):
        return {str(k): jsonable(v) for k, v in x.items()}
    if isinstance(x, (list, tuple)):
        return [jsonable(v) for v in x]
    if isinstance(x, (set, frozenset)):
        return sorted(jsonable(v) for v in x)
    return repr(x)


def unjson(x):
    if isinstance(x, dict):
        if set(x) == {"$b"}:
            return x["$b"].encode("latin-1")
        return {k: unjson(v) for k, v in x.items()}
    if isinstance(x, list):
        return [unjson(v) for v in x]
    return x


class RunResult:
    """What one simulated run reports."""

    def __init__(self):
        self.failure = None      # Failure | None
        self.tape = None         # effective tape
        self.digest = None       # sha256 of canonical event log
        self.sigs = set()        # behaviour signatures (strings) of non-trivial cases
        self.counts = {}         # mergeable counters (fault kinds fired, probes, policies ...)
        self.sim_time = 0.0
        self.trace = None        # human readable lines (only when asked)
        self.evals = 1
        self.info = {}

    def count(self, key, n=1):
        self.counts[key] = self.counts.get(key, 0) + n


def run_scenario(scn, config, seed=0, tape=None, masks=(), zero=(), trace=False):
    """Execute one run of scenario module ``scn``.

    scn.run(ch, config, res, trace) fills ``res`` (a RunResult).
    """
    ch = Chooser(seed, tape=tape, masks=masks, zero=zero)
    res = RunResult()
    if trace:
        res.trace = []
    scn.run(ch, config, res)
    res.tape = ch.tape
    return res


def digest_of(*parts):
    h = hashlib.sha256()
    for p in parts:
        h.update(repr(p).encode("utf-8", "backslashreplace"))
        h.update(b"\0")
    return h.hexdigest()


def merge_counts(dst, src):
    for k, v in src.items():
        dst[k] = dst.get(k, 0) + v
