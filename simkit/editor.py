"""Editor engine: reference list model of a filter set, operation generator,
restart (only the rendered text survives), helpers shared by C06/C11/C12/C19.
"""

import io

from . import sieveval


class ModelFilter:
    __slots__ = ("name", "conds", "acts", "mt", "enabled", "desc", "src")

    def __init__(self, name, conds, acts, mt, enabled=True, desc=None):
        self.name = name
        self.conds = conds
        self.acts = acts
        self.mt = mt
        self.enabled = enabled
        self.desc = desc

    def copy_def(self):
        return (self.conds, self.acts, self.mt)


class Model:
    """The obvious list model."""

    def __init__(self):
        self.filters = []

    def names(self):
        return [f.name for f in self.filters]

    def find(self, name):
        for i, f in enumerate(self.filters):
            if f.name == name:
                return i
        return -1

    # every op returns "ok" | "false" | "exists"
    def add(self, name, conds, acts, mt):
        if self.find(name) != -1:
            return "exists"
        self.filters.append(ModelFilter(name, conds, acts, mt))
        return "ok"

    def update(self, old, new, conds, acts, mt):
        i = self.find(old)
        if i == -1:
            return "false"
        if new != old and self.find(new) != -1:
            return "exists"
        f = self.filters[i]
        f.name, f.conds, f.acts, f.mt = new, conds, acts, mt
        return "ok"

    def replace(self, old, definition, new=None, desc=None):
        i = self.find(old)
        if i == -1:
            return "false"
        if new is None:
            new = old
        if new != old and self.find(new) != -1:
            return "exists"
        f = self.filters[i]
        f.name = new
        f.conds, f.acts, f.mt = definition
        if desc is not None:
            f.desc = desc
        return "ok"

    def remove(self, name):
        i = self.find(name)
        if i == -1:
            return "false"
        del self.filters[i]
        return "ok"

    def enable(self, name):
        i = self.find(name)
        if i == -1:
            return "false"
        if self.filters[i].enabled:
            return "any"       # unconstrained by the property
        self.filters[i].enabled = True
        return "ok"

    def disable(self, name):
        i = self.find(name)
        if i == -1:
            return "false"
        if not self.filters[i].enabled:
            return "any"
        self.filters[i].enabled = False
        return "ok"

    def move(self, name, direction):
        i = self.find(name)
        if i == -1:
            return "false"
        j = i - 1 if direction == "up" else i + 1
        if j < 0 or j >= len(self.filters):
            return "false"
        f = self.filters.pop(i)
        self.filters.insert(j, f)
        return "ok"


def fattr(f, key, default=None):
    """A filter record's field, whether the record is a mapping (today) or an object with attributes."""
    try:
        return f[key]
    except (TypeError, KeyError, IndexError):
        return getattr(f, key, default)


def classify(call):
    """Run a FiltersSet call; returns (class, value, exception)."""
    from sievelib.factory import FilterAlreadyExists
    try:
        v = call()
    except FilterAlreadyExists as e:
        return "exists", None, e
    except Exception as e:  # noqa
        return "raised:" + type(e).__name__, None, e
    if v is False or v is None:
        return "false", v, None
    if v is True or v:
        return "ok", v, None
    return "false", v, None


def render(fs):
    return str(fs)


def render_cmd(cmd):
    t = io.StringIO()
    cmd.tosieve(target=t)
    return t.getvalue()


def top_filters(text):
    """Top-level commands of a rendered set, without the requires."""
    nodes = sieveval.parse(text)
    return [n for n in nodes if n.name != "require"]


def is_wrapped(node):
    """`if false { <one command> }`: how the factory renders a disabled filter (the one command is an "if" rule for
    filters built from definitions, any command for contents handed to replacefilter)."""
    return (node.name == "if" and len(node.tests) == 1 and node.tests[0].name == "false"
            and not node.tests[0].args and node.block is not None and len(node.block) == 1)


def parsed_command(text):
    """The first command of a script, as the library's own parser builds it."""
    from sievelib.parser import Parser
    p = Parser()
    if not p.parse(text):
        raise AssertionError("harness: %r does not parse: %s" % (text, p.error))
    return p.result[0]


def unwrap(node):
    return node.block[0] if is_wrapped(node) else node


def restart_local(fs, name_pre=None, desc_pre=None):
    """Only the rendered text survives.  Returns (new FiltersSet | None, text,
    parser error | None)."""
    from sievelib.factory import FiltersSet
    from sievelib.parser import Parser
    text = str(fs)
    p = Parser()
    try:
        ok = p.parse(text)
    except Exception as e:      # the parser gave up on the library's own rendering with something other than a verdict
        return None, text, "parser raised %s: %s" % (type(e).__name__, e)
    if not ok:
        return None, text, getattr(p, "error", "?")
    kw = {}
    if name_pre is not None:
        kw["filter_name_pretext"] = name_pre
    if desc_pre is not None:
        kw["filter_desc_pretext"] = desc_pre
    fs2 = FiltersSet(fs.name, **kw)
    fs2.from_parser_result(p)
    return fs2, text, None


def load_text(text, name="reloaded", name_pre=None, desc_pre=None, parser=None, markers_by_attribute=False):
    """parser: a Parser object to reuse (it may have parsed other things before); markers_by_attribute: the markers are
    assigned to the public attributes of a set constructed with the defaults, instead of being passed to the constructor."""
    from sievelib.factory import FiltersSet
    from sievelib.parser import Parser
    p = parser if parser is not None else Parser()
    try:
        ok = p.parse(text)
    except Exception as e:
        return None, "parser raised %s: %s" % (type(e).__name__, e)
    if not ok:
        return None, getattr(p, "error", "?")
    kw = {}
    if name_pre is not None:
        kw["filter_name_pretext"] = name_pre
    if desc_pre is not None:
        kw["filter_desc_pretext"] = desc_pre
    if markers_by_attribute:
        fs2 = FiltersSet(name)
        for k, v in kw.items():
            setattr(fs2, k, v)
    else:
        fs2 = FiltersSet(name, **kw)
    fs2.from_parser_result(p)
    return fs2, None


# ---------------------------------------------------------------------------
# definition generator (documented condition / action forms)
# ---------------------------------------------------------------------------

class Slot:
    """Placeholder for a user-supplied string inside a definition structure."""
    __slots__ = ("i",)

    def __init__(self, i):
        self.i = i

    def __repr__(self):
        return "Slot(%d)" % self.i


def fill(struct, values):
    if isinstance(struct, Slot):
        return values[struct.i]
    if isinstance(struct, tuple):
        return tuple(fill(x, values) for x in struct)
    if isinstance(struct, list):
        return [fill(x, values) for x in struct]
    return struct


def benign_values(n):
    return ["zv%dz" % i for i in range(n)]


ALPHA_C06 = [
    "abcdefghijklmnopqrstuvwxyz0123456789",
    '"', "\\", ",", "[]", ";", "#", "{}", "\n", "éü€日𝔘", " ", ":*?@.-_/", "'",
    "\u0301\u200b\u200d\u202e\ufeff\u00a0\u2028\u2029\u0085\x0b\x0c\x1c\x7f\u212b\ufb01\U0001f600\u0130\u00df\u0131\t\r",
]
ALPHA_C19 = [
    "abcdefghijklmnopqrstuvwxyz0123456789",
    ",", " ", "[]", "éü€日𝔘", ":*?@.-_/;#{}", '"', "\\",
    "\u0301\u200b\u200d\u202e\ufeff\u00a0\u212b\ufb01\U0001f600\u0130\u00df\u0131",
    "\t\x0b\x0c\x1c\x7f\u0085\u2028\u2029\n\r",
]
ALPHA_BENIGN = ["abcdefghijklmnopqrstuvwxyz0123456789", "@.-_"]
TAG_LIKE = [":contains", ":is", ":matches", ":notis", ":over", ":copy", ":regex", ":value", ":zone", "gt", "date"]
ADDRESS_LIKE = ['mailto:"john doe"@example.com', "mailto:a@b.c", 'MAILTO:"x"@y', '<"q"@example.org>', 'sip:"x"', 'x"@y']
NEAR_KEYWORDS = ["re-body", "mysize", "nonexists", "on-true", "x-address", "theenvelope", "notes", "not", "nothing-special", "notification-id", "sizeable", "exists-x", "bodyguard", "truefalse", "x-envelope", "Not", "NOTE"]
TEXT_LIKE = ["text:", "text: weekly report, [draft]", "text:\n.\n", "text: x"]
LIST_LIKE = ['["x"]', '["a"] ["b"]', '[ "a", "b" ]', '["x"]) { discard; stop; } if anyof (exists ["y"]', '["To","Cc"]', '[]', '[""]']
WHOLE_C06 = NEAR_KEYWORDS + TAG_LIKE + ADDRESS_LIKE + LIST_LIKE + TEXT_LIKE + ["", 'a"b', "a\\", "\\Seen", 'x", "y', 'a" :is "b', "] [", "a,b", 'say "hi"', "\\\\", 'end\\', "a\nb", "text:", "#c", "a;b", "{x}", "q'"]
WHOLE_C19 = NEAR_KEYWORDS + TAG_LIKE + LIST_LIKE + TEXT_LIKE + ["", "a,b", "a, b", "[x]", "x]", "[", "a b", "é,ü", ",", "a,", ",a", "list-id", "a,b,c"]


PREFIX_NEGATED = ("notsize", "notenvelope", "notaddress", "notbody", "notcurrentdate")


def cond_kind(c):
    """'header' | 'exists' | 'size' | ... for a condition tuple, whatever the spelling of its negation."""
    h = c[0]
    if not isinstance(h, str):
        return "header"
    if h in PREFIX_NEGATED or h == "notexists":
        return h[3:]
    return h if h in ("exists", "size", "envelope", "address", "body", "currentdate", "true", "false") else "header"


def cond_negated(c):
    h = c[0]
    if isinstance(h, str) and (h in PREFIX_NEGATED or h == "notexists"):
        return True
    return any(isinstance(x, str) and x.startswith(":not") for x in c)


def canonical_condition(c):
    """The spelling get_filter_conditions answers with: negation folded into the match tag for envelope / address / body
    / currentdate, kept as a name prefix for exists and size."""
    h = c[0]
    if isinstance(h, str) and h in PREFIX_NEGATED and h != "notsize":
        out = [h[3:]]
        done = False
        for x in c[1:]:
            if not done and isinstance(x, str) and x in (":is", ":contains", ":matches", ":regex"):
                out.append(":not" + x[1:])
                done = True
            else:
                out.append(x)
        return tuple(out)
    return c


class DefGen:
    """Draws definition structures.  profile: 'c06' | 'c19' | 'benign'."""

    def __init__(self, f, profile):
        self.f = f
        self.profile = profile
        self.values = []

    # -- values ------------------------------------------------------------
    def value(self, label):
        f = self.f
        if self.profile == "benign":
            v = f.text(label, ALPHA_BENIGN, 6, 1)
        else:
            alpha = ALPHA_C06 if self.profile == "c06" else ALPHA_C19
            whole = WHOLE_C06 if self.profile == "c06" else WHOLE_C19
            k = f.weighted(label + ".k", [6, 6, 4, 1])
            if k == 0:
                v = f.text(label, ALPHA_BENIGN, 6, 1)
            elif k == 1:
                v = f.text(label, alpha, 8, 1)
            elif k == 3:
                # a long value with a special character on or next to a round length (limits, truncation, folding)
                n = [72, 76, 255, 256, 257, 998, 1023, 1024, 1025][f.int(label + ".L", 9)]
                sp = alpha[1 + f.int(label + ".sc", len(alpha) - 1)]
                ch = sp[f.int(label + ".sch", len(sp))]
                v = "x" * (n - 1 - f.int(label + ".off", 3)) + ch + "tail"
            else:
                v = whole[f.int(label + ".w", len(whole))]
            if v[:1] in ('"', "'"):
                v = "x" + v       # a value that starts with a quote is outside the claim
            if v[:1] == ":" and ".a" in label:
                v = "x" + v       # in an action tuple a string that starts with ':' *is* a tag (API convention)
        self.values.append(v)
        return Slot(len(self.values) - 1)

    def strlist(self, label, maxn=3):
        n = 1 + self.f.int(label + ".n", maxn)
        out = [self.value("%s.%d" % (label, i)) for i in range(n)]
        if self.profile != "benign" and self.f.flag(label + ".dup", 1, 5):
            # the same value twice in one list (the last element equal to an earlier one)
            self.values.append(self.values[out[0].i])
            out.append(Slot(len(self.values) - 1))
        return out

    def str_or_list(self, label):
        if self.f.flag(label + ".islist", 1, 3):
            return self.strlist(label)
        return self.value(label)

    # -- conditions ----------------------------------------------------------
    def condition(self, label):
        f = self.f
        p = self.profile
        kinds = ["header", "exists", "size", "envelope", "address", "body", "currentdate"]
        if p != "c19":
            kinds += ["truefalse", "header-lists"]
        k = kinds[f.int(label + ".kind", len(kinds))]
        neg = f.flag(label + ".neg", 1, 3)
        mt = [":is", ":contains", ":matches", ":regex"][f.weighted(label + ".mt", [3, 3, 3, 1])]
        tag = (":not" + mt[1:]) if neg else mt
        # the other accepted spelling of a negation: "not" in front of the test's name, with the plain tag
        prefix = neg and p != "benign" and k in ("envelope", "address", "body", "currentdate") and f.flag(label + ".negprefix", 1, 3)
        if prefix:
            tag = mt
        if k == "header":
            return (self.value(label + ".h"), tag, self.value(label + ".v"))
        if k == "header-lists":
            return (self.str_or_list(label + ".h"), tag, self.str_or_list(label + ".v"))
        if k == "exists":
            return (("notexists" if neg else "exists"),) + tuple(self.strlist(label + ".n"))
        if k == "size":
            lim = ["100k", "1M", "5", 100, "2G", 0, "0"][f.int(label + ".lim", 7)]
            return ("notsize" if (neg and p != "benign") else "size", [":over", ":under"][f.int(label + ".ou", 2)], lim)
        if k == "envelope":
            return ("notenvelope" if prefix else "envelope", tag, self.strlist(label + ".h", 2), self.strlist(label + ".v", 2))
        if k == "address":
            return ("notaddress" if prefix else "address", tag, self.str_or_list(label + ".h"), self.str_or_list(label + ".v"))
        if k == "body":
            tr = [":raw", ":text"][f.int(label + ".tr", 2)]
            return ("notbody" if prefix else "body", tr, tag) + tuple(self.strlist(label + ".v", 2))
        if k == "currentdate":
            zone = ["+0100", "-0330", "+0000"][f.int(label + ".zone", 3)]
            part = ["date", "year", "hour", "weekday"][f.int(label + ".part", 4)]
            if f.flag(label + ".rel", 1, 3):
                rel = ["gt", "ge", "lt", "le", "eq", "ne"][f.int(label + ".relop", 6)]
                return ("currentdate", ":zone", zone, ":value", rel, part) + tuple(self.strlist(label + ".v", 2))
            return ("notcurrentdate" if prefix else "currentdate", ":zone", zone, tag, part) + tuple(self.strlist(label + ".v", 2))
        return (["true", "false"][f.int(label + ".tf", 2)],)

    # -- actions -------------------------------------------------------------
    def action(self, label):
        f = self.f
        p = self.profile
        kinds = ["fileinto", "redirect", "reject", "keep", "discard", "stop"]
        if p == "c19":
            kinds += ["vacation-plain", "flagcmd-str"]
        else:
            # ("keep", ":flags", ...) is not generated: sievelib's own parser does not accept keep :flags, so it is not a
            # supported description (the factory silently ignores it)
            kinds += ["vacation", "flagcmd", "fileinto-flags"]
        k = kinds[f.int(label + ".kind", len(kinds))]
        if k == "fileinto":
            tags = []
            if f.flag(label + ".copy", 1, 3):
                tags.append(":copy")
            if f.flag(label + ".create", 1, 3):
                tags.append(":create")
            return ("fileinto",) + tuple(tags) + (self.value(label + ".folder"),)
        if k == "fileinto-flags":
            return ("fileinto", ":flags", self.str_or_list(label + ".flags"), self.value(label + ".folder"))
        if k == "redirect":
            tags = (":copy",) if f.flag(label + ".copy", 1, 3) else ()
            return ("redirect",) + tags + (self.value(label + ".addr"),)
        if k == "reject":
            return ("reject", self.value(label + ".reason"))
        if k == "keep":
            return ("keep",)
        if k == "keep-flags":
            return ("keep", ":flags", self.str_or_list(label + ".flags"))
        if k == "discard":
            return ("discard",)
        if k == "stop":
            return ("stop",)
        if k == "flagcmd":
            return (["setflag", "addflag", "removeflag"][f.int(label + ".which", 3)], self.str_or_list(label + ".flags"))
        if k == "flagcmd-str":
            return (["setflag", "addflag", "removeflag"][f.int(label + ".which", 3)], self.value(label + ".flags"))
        if k == "vacation-plain":
            tags = (":mime",) if f.flag(label + ".mime", 1, 3) else ()
            return ("vacation",) + tags + (self.value(label + ".reason"),)
        # vacation with tags
        out = ["vacation"]
        if f.flag(label + ".subject", 1, 2):
            out += [":subject", self.value(label + ".subject")]
        w = f.int(label + ".period", 4)
        if w in (1, 3):
            out += [":days", f.int(label + ".days", 31)]
        if w in (2, 3):
            out += [":seconds", 60 * f.int(label + ".secs", 31)]
        if f.flag(label + ".from", 1, 3):
            out += [":from", self.value(label + ".fromv")]
        if f.flag(label + ".addresses", 1, 3):
            out += [":addresses", self.str_or_list(label + ".addrs")]
        if f.flag(label + ".handle", 1, 3):
            out += [":handle", self.value(label + ".handlev")]
        if f.flag(label + ".mime", 1, 4):
            out += [":mime"]
        out.append(self.value(label + ".reason"))
        return tuple(out)

    def definition(self, label, maxc=3, maxa=3):
        f = self.f
        nc = 1 + f.int(label + ".nc", maxc)
        na = 1 + f.int(label + ".na", maxa)
        conds = [self.condition("%s.c%d" % (label, i)) for i in range(nc)]
        if self.profile != "benign" and f.flag(label + ".dupcond", 1, 8):
            conds.append(conds[0])       # the very same condition twice, the repeat in last position
        if self.profile != "benign" and f.flag(label + ".twin", 1, 8):
            # a condition together with the negation of the identical condition
            c = conds[0]
            twin = None
            if isinstance(c[0], str) and c[0] in ("exists", "notexists"):
                twin = (("notexists" if c[0] == "exists" else "exists"),) + tuple(c[1:])
            elif isinstance(c[0], str) and c[0] in PREFIX_NEGATED:
                twin = (c[0][3:],) + tuple(c[1:])
            else:
                for j, x in enumerate(c):
                    if isinstance(x, str) and x in (":is", ":contains", ":matches", ":notis", ":notcontains", ":notmatches"):
                        flipped = (":not" + x[1:]) if not x.startswith(":not") else (":" + x[4:])
                        twin = tuple(c[:j]) + (flipped,) + tuple(c[j + 1:])
                        break
            if twin is not None:
                conds.insert(f.int(label + ".twinpos", len(conds) + 1), twin)
        acts = [self.action("%s.a%d" % (label, i)) for i in range(na)]
        mt = ["anyof", "allof"][f.int(label + ".matchtype", 2)]
        return conds, acts, mt


# definitions the factory refuses with an exception of its own (BadArgument / BadValue / UnknownCommand) - some only
# after it has already noted an extension.  As steps of a history they must leave the filters alone.
BAD_DEFS = [
    ([("Subject", ":contains", "x")], [("fileinto", ":Archive")], "anyof"),
    ([("Subject", ":bogus", "x")], [("keep",)], "anyof"),
    ([("Subject", ":is", "x")], [("nosuchaction", "x")], "anyof"),
    ([("Subject", ":is", "x")], [("vacation", ":days", "7", "r")], "anyof"),
    ([("Subject", ":is", "x")], [("fileinto", ":copy", ":bogus", "F")], "anyof"),
    ([("envelope", ":bogus", ["From"], ["x"])], [("fileinto", "F")], "anyof"),
    ([("body", ":nope", ":is", "x")], [("fileinto", "F")], "anyof"),
    ([("Subject", ":is", "x")], [("fileinto", "F")], "noneof"),
    ([("currentdate", ":zone", "+0100", ":value", "zz", "date", "x")], [("redirect", "a@b.c")], "anyof"),
    ([("Subject", ":is", "x")], [("redirect", 5)], "anyof"),
    ([("Subject", ":is", "x")], [("vacation", ":subject", 7, "r")], "anyof"),
    ([("Subject", ":is", "x")], [("reject", "no"), ("fileinto", ":flags", "\\Seen", ":bogus", "F")], "allof"),
    # an extension tag handed to an action that does not take it
    ([("Subject", ":is", "x")], [("reject", ":copy", "x")], "anyof"),
    ([("Subject", ":is", "x")], [("redirect", ":create", "a@b.c")], "anyof"),
    ([("Subject", ":is", "x")], [("vacation", ":flags", ["\\Seen"], "r")], "anyof"),
]


def bad_definition(f, label):
    return BAD_DEFS[f.int(label, len(BAD_DEFS))]


def gen_definition(f, label, profile):
    """Returns (structure (conds, acts, mt) with Slots, values)."""
    g = DefGen(f, profile)
    struct = g.definition(label)
    return struct, g.values
