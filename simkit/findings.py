"""Known findings: read-only at run time.

/verif/known_findings.json:
  {"findings": [
     {"id": "...", "status": "open", "property": "C16", "clauses": ["C16.exception"],
      "triggers": [[family, label, value], ...], "what": "...", "call_site": "...", "example": "..."},
     {"id": "...", "status": "fixed", "property": "C05", "commit": "<sha>", "what": "..."}
  ]}

An *open* finding excuses a failing run only if the failure disappears when
exactly the finding's trigger choices are turned back to 0 (counterfactual
attribution).  A *fixed* entry suppresses nothing.
"""

import json
import os

PATH = os.environ.get("VERIF_FINDINGS") or os.path.join(os.path.dirname(os.path.dirname(os.path.abspath(__file__))), "known_findings.json")


def load(prop=None):
    try:
        with open(PATH) as fp:
            data = json.load(fp)
    except FileNotFoundError:
        return []
    out = []
    for f in data.get("findings", []):
        if f.get("status") != "open":
            continue
        if prop is not None and f.get("property") != prop:
            continue
        out.append(f)
    return out


def all_triggers(findings):
    z = set()
    for f in findings:
        for t in f.get("triggers", []):
            z.add(tuple(t))
    return z


def attribute(rerun, failure, findings):
    """``rerun(zero) -> Failure | None``.  Returns (finding_ids, residual):

    * finding_ids non-empty, residual None: the failure needs known triggers.
    * finding_ids empty, residual (failure, zero): a violation that is not
      excused; ``zero`` is the trigger set under which it still fails (so that
      the report shows a case that fails *without* the known triggers).
    """
    if not findings:
        return [], (failure, ())
    cands = [f for f in findings if failure.clause in f.get("clauses", []) or not f.get("clauses")]
    if not cands:
        return [], (failure, ())
    zero = all_triggers(cands)
    f2 = rerun(zero)
    if f2 is not None:
        return [], (f2, tuple(sorted(zero)))
    # which ones? try each alone
    ids = []
    for f in cands:
        if rerun(set(tuple(t) for t in f.get("triggers", []))) is None:
            ids.append(f["id"])
    if not ids:
        ids = [f["id"] for f in cands]
    return ids, None
