"""Value generators shared by the wire scenarios.  All draws go through a
chooser Family so that they land on the tape; index 0 is always the benign
alternative."""

BENIGN_NAMES = ["alpha", "beta", "gamma", "delta", "eps"]
# names that differ only by case or Unicode normalisation are different names for the server
TWIN_NAMES = ["alpha", "Alpha", "ALPHA", "cafe\u0301", "caf\u00e9", "beta"]

# names that are legal per RFC 5804 section 1.6 but resemble protocol elements
LOOKALIKE_NAMES = [
    "plain", "OK", "NO", "BYE", "{3}", "{3+}", "ACTIVE", 'a" ACTIVE', "x\\y", 'a"b',
    "with space", "café", "日本語", "a\\", '"', "\\", "{0}", "x ACTIVE", "active",
    'q"', "a,b", "(x)", "𝔘nicode", "trailing ", " leading", "OK \"x\"", "ü", "名" * 170,
    "e\u0301", "\u00e9", "Plain", "PLAIN", "\u212bngstr\u00f6m", "\u00c5ngstr\u00f6m",   # equal but for normalisation / case
]

LINE_POOL = [
    b"keep;", b"", b"OK", b'OK "fake"', b'NO "x"', b"BYE", b"{5}", b"{5+}", b"{0}",
    b'"quoted"', b"ACTIVE", b'"x" ACTIVE', b"# comment", b'fileinto "INBOX";',
    "# café € \U0001d518".encode("utf-8"), b'NO (QUOTA) "q"', b" ", b"\t",
    b'if header :is "Subject" "OK" { discard; }', b"{12}", b"OK (WARNINGS) \"w\"",
    b"text:", b".", b'"', b"\\", b"{", b"}", b'"unterminated',
    # characters str.splitlines() treats as line boundaries but which are content inside a line
    # a legal quoted string of <= 1024 characters that is longer than 1024 octets
    ("é" * 700).encode("utf-8"), ("日" * 400 + " x").encode("utf-8"), ("\U0001f600" * 1024).encode("utf-8"),
    "\ufeffkeep;".encode("utf-8"), "x\ufeffy".encode("utf-8"),
    "a\u2028b".encode("utf-8"), "p\u2029q".encode("utf-8"), "n\u0085m".encode("utf-8"), b"v\x0bt", b"f\x0cf", b"g\x1cs\x1dr\x1eu",
]

# characters that text-handling code tends to special-case: combining marks, zero-width and bidi controls, BOM, NBSP,
# Unicode line/paragraph separators and NEL, VT/FF/FS, DEL, compatibility characters, case-folding oddities, astral
UNICODE_ODDITIES = "\u0301\u200b\u200d\u202e\ufeff\u00a0\u2028\u2029\u0085\x0b\x0c\x1c\x7f\u212b\ufb01\U0001f600\u0130\u00df\u0131"
# the subset RFC 5804 section 1.6 allows in script names (no C0/C1 controls, no U+2028/2029)
NAME_ODDITIES = "\u0301\u200b\u200d\u202e\ufeff\u00a0\u212b\ufb01\U0001f600\u0130\u00df\u0131"

EOLS = [b"\r\n", b"\n"]


def lines_of(b):
    """Split on CRLF or LF; drop trailing blank lines (the comparison the
    properties prescribe: line-ending style and trailing blank lines aside)."""
    ls = b.replace(b"\r\n", b"\n").split(b"\n")
    while ls and ls[-1] == b"":
        ls.pop()
    return ls


def body(f, label, hostile=True, maxlines=8, uniq=None):
    """A script body as bytes."""
    shape = f.weighted(label + ".shape", [6, 1, 1, 1, 2, 1] if hostile else [1, 0, 0, 0, 0, 0])
    if shape == 5:
        # total length on or around a power-of-two boundary (read_size-aligned replies)
        T = [1024, 4096, 8192, 70000][f.int(label + ".T", 4)]     # 70000: a literal with more than 64 KiB still to come
        L = T - 40 + f.int(label + ".delta", 45)
        head = b"# " + (uniq or b"b") + b"\r\n"
        tail = [b"\r\n", b"", b"\n"][f.int(label + ".tail", 3)]
        fill = max(0, L - len(head) - len(tail))
        return head + b"y" * fill + tail
    if shape == 1:
        return b"" if uniq is None else b"# " + uniq
    if shape == 2:
        return f.pick(label + ".blank", [b"\r\n", b"\n", b"\r\n\r\n", b"\n\n\n"])
    n = 1 + f.int(label + ".n", maxlines)
    eolmode = f.int(label + ".eol", 3)    # 0 CRLF, 1 LF, 2 mixed
    out = bytearray()
    if uniq is not None:
        out += b"# " + uniq + (b"\r\n" if eolmode != 1 else b"\n")
    for i in range(n):
        if hostile:
            ln = LINE_POOL[f.int(label + ".line", len(LINE_POOL))]
        else:
            ln = b"keep;"
        if shape == 3 and i == 0:
            ln = ln + b"x" * (200 + 50 * f.int(label + ".big", 200))
        out += ln
        last = i == n - 1
        if last and shape == 4:
            break   # no final newline
        if eolmode == 0:
            out += b"\r\n"
        elif eolmode == 1:
            out += b"\n"
        else:
            out += EOLS[f.int(label + ".mix", 2)]
    return bytes(out)


def benign_body(uniq):
    return b"# " + uniq + b"\r\nkeep;\r\n"


def name(f, label, pool=BENIGN_NAMES):
    return pool[f.int(label, len(pool))]
