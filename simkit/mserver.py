"""SimServer: executable reference model of an RFC 5804 ManageSieve server.

State, semantics, randomised (choice-driven) reply encoding, verdict faults,
SASL server sides, a ground-truth log per command and a violation log.
"""

import base64
import binascii
import hashlib

from . import wire
from .wire import Reply, Renderer, parse_command, parse_string_line, OK, ERROR, INCOMPLETE


# fault kinds (value 0 = none)
(F_NONE, F_NO, F_BYE, F_SILENT, F_CLOSE, F_LOST_SILENT, F_LOST_CLOSE, F_TRUNC, F_RESET, F_LOST_RESET, F_DELAYED,
 F_TRUNC_SILENT, F_TRUNC_RESET) = range(13)
FAULT_NAMES = ("none", "NO", "BYE", "silence", "close", "applied+silence",
               "applied+close", "truncated-reply+close", "reset", "applied+reset", "applied+reply-later-than-the-read-timeout",
               "truncated-reply+silence", "truncated-reply+reset")

TEXT_POOL = [
    b"done", b"", b"quota exceeded", b'say "hi"', b"back\\slash", b'\\"', b"(NOTACODE) x",
    b"{5}", b"OK", b'NO "x"', "café €".encode("utf-8"), b"a" * 70,
    b"two\r\nlines", b"line one\r\nOK \"fake\"\r\nline three", b"trailing\r\n",
    b'"', b"\\", b" lead", b"x)", b"(", b"  ",
    b"t" * 1000, b"u" * 1024, ("w" * 600 + "é" * 200).encode("utf-8"), b"{12}", b"{3+}",
    # a compile report of some 80 KB (well beyond 64 KiB), necessarily a literal
    b"".join(b"line %d: syntax error near something\r\n" % i for i in range(2000)),
]


# names real servers give themselves (some clients carry work-arounds keyed on them); None = the configured default
IMPLEMENTATIONS = [None, "Cyrus timsieved v2.3.16", "Cyrus timsieved v2.2.13-Debian-2.2.13-19", "Cyrus timsieved v2.3.7",
                   "Cyrus timsieved v2.4.17", "Cyrus timsieved 3.0.8", "Dovecot Pigeonhole", "dovecot", "DBMail timsieved 3.2.3",
                   "dbmail-timsieved", "Example1 ManageSieved v001", "", "Exim 4.96 / ManageSieve proxy", "ArGoSoft Mail Server"]


def name_ok(name):
    """RFC 5804 section 1.6 script-name rule."""
    try:
        s = name.decode("utf-8")
    except UnicodeDecodeError:
        return False
    if not s or len(name) > 512:
        return False
    for c in s:
        o = ord(c)
        if o <= 0x1F or 0x7F <= o <= 0x9F or o in (0x2028, 0x2029):
            return False
    return True


class ServerConfig:
    def __init__(self, **kw):
        self.version = True
        self.starttls = False
        self.sasl_pre = ["PLAIN"]
        self.sasl_post = None            # None -> same as pre
        self.users = {"user": "password"}
        self.authz_ok = True             # any authorisation id accepted
        self.max_scripts = 6
        self.max_script_size = 20000
        self.max_total = 40000
        self.implementation = "SimSieve 1.0"
        self.sieve = "fileinto vacation envelope body date relational regex copy mailbox imap4flags reject variables"
        self.extra_caps = []             # [(name, value|None)]
        self.realm = "sim.example"       # "" = no realm directive in the challenge
        self.digest_qop = "auth"         # the qop-options of the digest-challenge
        self.nonce = "OA6MG9tEQGm2hh"
        self.__dict__.update(kw)


class ConnState:
    def __init__(self):
        self.buf = bytearray()
        self.tls = False
        self.awaiting_handshake = False
        self.user = None          # authenticated login
        self.authz = None
        self.sasl = None          # in-progress exchange
        self.closed = False
        self.version = True
        self.auth_ok_count = 0
        self.bytes_after_close = 0


class CmdRecord:
    """Ground truth for one command (or greeting / capability block)."""

    __slots__ = ("conn", "scope", "call_id", "verb", "args", "decoded", "fault",
                 "status", "applied", "reply", "raw", "before", "after", "note",
                 "channel", "sasl")

    def __init__(self, **kw):
        for k in self.__slots__:
            setattr(self, k, kw.get(k))

    def brief(self):
        return (self.scope, self.verb, self.args, FAULT_NAMES[self.fault or 0],
                self.status, self.raw)


class SimServer:
    def __init__(self, ch, config=None):
        self.ch = ch
        self.cfg = config or ServerConfig()
        self.scripts = {}          # name(bytes) -> content(bytes), insertion ordered
        self.active = None
        self.log = []              # CmdRecord list
        self.violations = []       # (conn_id, call_id, description, bytes)
        self.notes = []            # (conn_id, call_id, text): legal but telling (e.g. an optional command that was never offered)
        self.version_hook = None   # f(conn) -> bool: does this connection get the VERSION capability
        self.net = None
        self._k = {}
        # knobs set by scenarios ------------------------------------------
        self.fault_weights = [1, 0, 0, 0, 0, 0, 0, 0]
        self.fault_hook = None         # f(conn, decoded, scope) -> kind | None
        self.shape_hook = None         # f(status, code, text, scope) -> (code, text, lit_text) | None
        self.lit_hook = None           # f(kind, value) -> bool | None: force literal/quoted encoding
        self._force_lit_text = None
        self.greeting_hook = None      # f(conn) -> kind | None  ('refuse','bye','silent','close','garbage','nook', None)
        self.tls_hook = None           # f(conn) -> 'ok' | 'sslerror' | 'certerror' | 'timeout' | 'eof'
        self.postcaps_hook = None      # f(conn) -> None | 'silent' | 'close' | 'bye' | 'garbage' | 'no'
        self.data_variation = True     # quoted/literal choice for data strings
        self.status_variation = False  # code/text shape choices for status lines
        self.text_lit_variation = False  # status text quoted/literal choice only
        self.order_variation = False
        self.validator = None          # f(bytes) -> (ok, text)
        self.auth_hook = None          # override for SASL verdict
        self.sasl_seen = []            # decoded credentials per AUTHENTICATE exchange
        self.oauth_challenge_on_fail = False
        self.inject_after_starttls = False
        self.cap_variation = False     # case of capability names and order of capability lines are drawn
        self.login_early_reject = False   # LOGIN: NO right after the user name, without a password challenge
        self.digest_final_in_ok = False   # DIGEST-MD5: rspauth in OK (SASL "...") instead of an extra challenge
        self.no_with_sasl_code = False    # a forced NO of the verdict still carries the final SASL data
        self.bye_with_referral = False    # forced BYEs carry (REFERRAL "sieve://other.example")
        self.self_check = True
        self.quote_binary = False         # malformed on purpose: strings that are not UTF-8 are sent inside quotes
        self.fault_counts = {}
        self.shape_counts = {}

    def attach(self, net):
        self.net = net

    # ------------------------------------------------------------------
    def snapshot(self):
        return (dict(self.scripts), self.active)

    def violation(self, conn, desc, data=b""):
        self.violations.append((conn.id, self.net.call_id, desc, bytes(data)))

    def _scope(self):
        base = self.ch.scope_name or "idle"
        k = self._k.get(base, 0)
        self._k[base] = k + 1
        return "%s.c%d" % (base, k)

    # -- rendering -------------------------------------------------------
    def _send(self, conn, reply, scope, rec=None, trunc=None):
        ch = self.ch

        def lit(kind, val):
            if self.lit_hook is not None:
                forced = self.lit_hook(kind, val)
                if forced is not None:
                    return forced
            if kind == "text":
                if self._force_lit_text is not None:
                    return self._force_lit_text
                if not self.status_variation and not self.text_lit_variation:
                    return False
            elif not self.data_variation:
                return False
            with ch.abs_scope(scope):
                return ch.srv.flag("enc.lit", 1, 3)

        r = Renderer(lit, quote_binary=self.quote_binary)
        data = r.render(reply)
        if self.self_check and not self.quote_binary:
            self._self_check(reply, data)
        if trunc is not None:
            data = data[:trunc]
        if rec is not None:
            rec.raw = data
            rec.reply = reply
        self.net.events.append(("srv", conn.id, scope, reply.status, data))
        self.net.enqueue(conn, data, scope, r.marks, r.spans)
        return data

    def _self_check(self, reply, data):
        try:
            tree = wire.parse_response(data, expect_status=reply.status is not None)
        except Exception as e:  # pragma: no cover - harness bug
            raise AssertionError("SimServer emitted bytes its own grammar rejects: %r (%s)" % (data, e))
        exp = reply.tree()
        if tree != exp:
            raise AssertionError("SimServer self-conformance: %r parsed back as %r, expected %r" % (data, tree, exp))

    def _status_shape(self, status, code, text, scope):
        """Apply shape choices to a status line.  Returns (code, text)."""
        self._force_lit_text = None
        if self.shape_hook is not None:
            forced = self.shape_hook(status, code, text, scope)
            if forced is not None:
                code, text, self._force_lit_text = forced
                key = (status, None if code is None else (code[0], code[1] is not None),
                       None if text is None else ("empty" if text == b"" else ("ml" if b"\n" in text else "t")))
                self.shape_counts[key] = self.shape_counts.get(key, 0) + 1
                return code, text
        if not self.status_variation:
            return code, text
        ch = self.ch
        with ch.abs_scope(scope):
            c = ch.srv.weighted("enc.code", [4, 2, 3, 2])
            if code is not None and code[0] == b"SASL":
                c = 0      # final SASL data is part of the exchange, not decoration: a conforming server cannot drop it
            if c == 1:
                code = None
            elif c == 2:
                if status == b"OK":
                    code = ch.srv.pick("enc.codeval", [(b"WARNINGS", None), (b"TAG", b"t1"), (b"SASL", b"cnNwYXV0aD0x")])
                else:
                    name = ch.srv.pick("enc.codeval", wire.RESP_CODES_PLAIN)
                    code = (name, None)
            elif c == 3:
                name = ch.srv.pick("enc.codeparam", wire.RESP_CODES_PARAM)
                code = (name, ch.srv.pick("enc.codeparamval", [b"x", b"a b", b'q"q', b"sieve://h/", b"", b"p" * 1000, b"P" * 1024, b"p)q", b"(x) y"]))
            t = ch.srv.weighted("enc.text", [3, 2, 1, 5])
            if t == 1:
                text = None
            elif t == 2:
                text = b""
            elif t == 3:
                text = ch.srv.pick("enc.textval", TEXT_POOL)
        key = (status, None if code is None else (code[0], code[1] is not None),
               None if text is None else ("empty" if text == b"" else ("ml" if b"\n" in text else "t")))
        self.shape_counts[key] = self.shape_counts.get(key, 0) + 1
        return code, text

    def _reply(self, conn, rec, scope, status, lines=(), code=None, text=None, close=False):
        code, text = self._status_shape(status, code, text, scope)
        rep = Reply(status, lines, code, text)
        rec.status = status
        self._send(conn, rep, scope, rec)
        if close or status == b"BYE":
            self._close(conn)

    def _close(self, conn):
        conn.server_closed = True
        conn.state.closed = True

    # -- connection events -------------------------------------------------
    def on_connect(self, conn, addr):
        st = conn.state = ConnState()
        # which optional commands this connection is offered (a proxy may front servers of different versions)
        st.version = self.version_hook(conn) if self.version_hook else self.cfg.version
        scope = self._scope()
        kind = self.greeting_hook(conn) if self.greeting_hook else None
        rec = CmdRecord(conn=conn.id, scope=scope, call_id=self.net.call_id, verb=b"<greeting>",
                        args=[], fault=F_NONE, applied=True, channel="plain", note=kind)
        self.log.append(rec)
        if kind == "refuse":
            rec.status = None
            return True
        self._capability_block(conn, rec, scope, kind, pre=True)
        return False

    def caps(self, conn):
        cfg = self.cfg
        st = conn.state
        impl = cfg.implementation
        if self.cap_variation:
            # what a server calls itself is free text; clients that key work-arounds on it must still see a conforming peer
            k = st.__dict__.get("_impl")
            if k is None:
                with self.ch.abs_scope("conn#%d.impl" % conn.id):
                    k = st.__dict__["_impl"] = self.ch.srv.weighted("impl", [6] + [1] * (len(IMPLEMENTATIONS) - 1))
            impl = IMPLEMENTATIONS[k] or cfg.implementation
        out = [(b"IMPLEMENTATION", impl.encode())]
        sasl = cfg.sasl_pre if (not st.tls or cfg.sasl_post is None) else cfg.sasl_post
        if sasl == "bare":
            out.append((b"SASL", None))       # a SASL line without a value
        elif sasl is not None and sasl is not False:
            out.append((b"SASL", b" ".join(m if isinstance(m, bytes) else m.encode() for m in sasl)))
        out.append((b"SIEVE", cfg.sieve.encode()))
        if cfg.starttls and not st.tls:
            out.append((b"STARTTLS", None))
        if st.version:
            out.append((b"VERSION", b"1.0"))
        for n, v in cfg.extra_caps:
            out.append((n, v))
        return out

    def _cap_lines(self, conn, scope=None):
        lines = []
        caps = self.caps(conn)
        if self.cap_variation and scope is not None:
            # capability names are case-insensitive and the order of the lines is free (RFC 5804 section 1.7 / ABNF literals)
            with self.ch.abs_scope(scope):
                order = self.ch.srv.int("cap.order", 3)
                case = self.ch.srv.weighted("cap.case", [3, 1, 1])
                extra = self.ch.srv.weighted("cap.extra", [3, 1, 1, 1])
            # capabilities this client does not know, some with names that contain the name of one it knows
            if extra == 1:
                caps = caps + [(b"NOTIFY", b"mailto"), (b"LANGUAGE", b"en"), (b"OWNER", b"user"), (b"XFOO", None)]
            elif extra == 2:
                caps = [(b"XSASL", b"PLAIN LOGIN DIGEST-MD5 OAUTHBEARER"), (b"SASL-IR", None), (b"STARTTLS-REQUIRED", None)] + caps + [(b"MAXREDIRECTS", b"5")]
            elif extra == 3:
                caps = caps[:1] + [(b"UNAUTHENTICATE", None), (b"RENAME", b"no"), (b"VERSIONS", b"9.9")] + caps[1:]
            if order == 1:
                caps = caps[::-1]
            elif order == 2:
                caps = caps[2:] + caps[:2]
            if case == 1:
                caps = [(n.lower(), v) for n, v in caps]
            elif case == 2:
                caps = [(n.capitalize(), v) for n, v in caps]
        for n, v in caps:
            l = [("s", n)]
            if v is not None:
                l.append(("s", v))
            lines.append(l)
        return lines

    def _capability_block(self, conn, rec, scope, kind, pre):
        """Greeting / post-TLS capability block, possibly faulted."""
        if kind in (None, "ok"):
            # capability lines are always quoted (real servers do)
            dv = self.data_variation
            self.data_variation = False
            try:
                self._reply(conn, rec, scope, b"OK", self._cap_lines(conn, scope), None, b"ready")
            finally:
                self.data_variation = dv
            return
        self.fault_counts["caps:" + kind] = self.fault_counts.get("caps:" + kind, 0) + 1
        if kind == "bye":
            self._reply(conn, rec, scope, b"BYE", (), (b"REFERRAL", b"sieve://other.example") if self.bye_with_referral else (b"TRYLATER", None),
                        b"overloaded")
        elif kind == "no":
            self._reply(conn, rec, scope, b"NO", (), None, b"go away")
        elif kind == "silent":
            rec.status = None
        elif kind == "close":
            rec.status = None
            self._close(conn)
        elif kind == "garbage":
            rec.status = None
            data = b"* OK IMAP4rev1 ready\r\n"
            rec.raw = data
            self.net.enqueue(conn, data, scope)
        elif kind == "nook":
            # capability lines but never the final OK
            rec.status = None
            r = Renderer(lambda k, v: False)
            data = r.render(Reply(None, self._cap_lines(conn)))
            rec.raw = data
            self.net.enqueue(conn, data, scope)
        elif kind == "litplus":
            # a peer that marks its own literals {n+} (only clients may): the listing is complete, its final OK carries a
            # text whose first line reads like a status line
            rec.status = b"OK"
            r = Renderer(lambda k, v: False)
            data = r.render(Reply(None, self._cap_lines(conn)))
            text = b'OK "not the reply you are waiting for"\r\nsecond line'
            data = data + b"OK {%d+}\r\n" % len(text) + text + b"\r\n"
            rec.raw = data
            self.net.enqueue(conn, data, scope)
        elif kind == "late":
            # the listing is sent, but only after the client's read timeout has expired: it is still in the stream afterwards
            seg_before = len(conn.segments)
            dv = self.data_variation
            self.data_variation = False
            try:
                self._reply(conn, rec, scope, b"OK", self._cap_lines(conn, scope), None, b"ready")
            finally:
                self.data_variation = dv
            for sg in conn.segments[seg_before:]:
                sg.delay = 1
        elif kind in ("badline-utf8", "badline-blank"):
            # a complete listing (final OK included) one line of which a client may choke on: a capability name that is
            # not UTF-8, or a line of blanks
            rec.status = b"OK"
            r = Renderer(lambda k, v: False)
            data = r.render(Reply(None, self._cap_lines(conn)))
            bad = b'"\xff\xfeX" "y"\r\n' if kind == "badline-utf8" else b"  \r\n"
            data = data + bad + b'OK "ready"\r\n'
            rec.raw = data
            self.net.enqueue(conn, data, scope)
        else:
            raise AssertionError(kind)

    def on_tls_handshake(self, conn, server_hostname):
        st = conn.state
        if not st.awaiting_handshake:
            self.violation(conn, "TLS handshake started without a successful STARTTLS")
            return "sslerror"
        outcome = self.tls_hook(conn) if self.tls_hook else "ok"
        if outcome == "ok":
            st.tls = True
            st.awaiting_handshake = False
        else:
            self.fault_counts["tls:" + outcome] = self.fault_counts.get("tls:" + outcome, 0) + 1
            self._close(conn)
        return outcome

    def after_tls(self, conn):
        scope = self._scope()
        kind = self.postcaps_hook(conn) if self.postcaps_hook else None
        rec = CmdRecord(conn=conn.id, scope=scope, call_id=self.net.call_id, verb=b"<post-tls-caps>",
                        args=[], fault=F_NONE, applied=True, channel="tls", note=kind)
        self.log.append(rec)
        self._capability_block(conn, rec, scope, kind, pre=False)

    def on_client_close(self, conn):
        if conn.state is not None:
            conn.state.closed = True

    # -- input ---------------------------------------------------------------
    def on_bytes(self, conn, channel, data):
        st = conn.state
        if st.closed:
            st.bytes_after_close += len(data)
            return
        if st.awaiting_handshake:
            self.violation(conn, "bytes written between STARTTLS OK and the TLS handshake", data)
            return
        if channel != conn.channel:
            self.violation(conn, "bytes written on the %s channel while the connection is on %s" % (channel, conn.channel), data)
            return
        st.buf += data
        while st.buf and not st.closed and not st.awaiting_handshake:
            if st.sasl is not None:
                status, val, used, why = parse_string_line(st.buf)
                if status == INCOMPLETE:
                    return
                raw = bytes(st.buf[:used])
                del st.buf[:used]
                if status == ERROR:
                    self.violation(conn, "malformed SASL continuation: %s" % why, raw)
                    self._sasl_finish(conn, False, b"malformed continuation")
                    continue
                self._sasl_step(conn, val, raw)
                continue
            status, dec, used, why = parse_command(st.buf)
            if status == INCOMPLETE:
                return
            raw = bytes(st.buf[:used])
            del st.buf[:used]
            if status == ERROR:
                self.violation(conn, "malformed command: %s" % why, raw)
                scope = self._scope()
                rec = CmdRecord(conn=conn.id, scope=scope, call_id=self.net.call_id, verb=b"<malformed>",
                                args=[raw], fault=F_NONE, applied=False, channel=channel)
                self.log.append(rec)
                self._reply(conn, rec, scope, b"NO", (), None, b"syntax error")
                continue
            self._command(conn, dec, channel)

    def pending_input(self, conn):
        """Unconsumed client bytes (a partial or surplus command)."""
        return bytes(conn.state.buf) if conn.state is not None else b""

    # -- commands ------------------------------------------------------------
    def _draw_fault(self, conn, dec, scope):
        if self.fault_hook is not None:
            k = self.fault_hook(conn, dec, scope)
            if k is not None:
                return k
        w = self.fault_weights
        if sum(w[1:]) == 0:
            return F_NONE
        with self.ch.abs_scope(scope):
            return self.ch.srv.weighted("fault", w)

    def _command(self, conn, dec, channel):
        st = conn.state
        scope = self._scope()
        verb = dec.verb
        rec = CmdRecord(conn=conn.id, scope=scope, call_id=self.net.call_id, verb=verb, args=dec.args,
                        decoded=dec, fault=F_NONE, applied=False, channel=channel,
                        before=self.snapshot())
        self.log.append(rec)
        fault = self._draw_fault(conn, dec, scope)
        rec.fault = fault
        if fault:
            n = FAULT_NAMES[fault]
            self.fault_counts[n] = self.fault_counts.get(n, 0) + 1
        if fault == F_NO:
            self._reply(conn, rec, scope, b"NO", (), (b"TRYLATER", None), b"try later")
            rec.after = self.snapshot()
            return
        if fault == F_BYE:
            self._reply(conn, rec, scope, b"BYE", (), (b"REFERRAL", b"sieve://other.example") if self.bye_with_referral else None,
                        b"shutting down")
            rec.after = self.snapshot()
            return
        if fault == F_SILENT:
            rec.status = None
            st.closed = True   # server stops listening, connection stays open and silent
            rec.after = self.snapshot()
            return
        if fault == F_CLOSE:
            rec.status = None
            self._close(conn)
            rec.after = self.snapshot()
            return
        if fault == F_RESET:
            rec.status = None
            self._close(conn)
            conn.reset = True      # RST instead of FIN: recv raises ConnectionResetError
            rec.after = self.snapshot()
            return

        seg_before = len(conn.segments)
        handler = getattr(self, "_do_" + verb.decode("ascii").lower())
        # state gating
        if verb in wire.SCRIPT_VERBS and st.user is None:
            self.violation(conn, "%s before authentication" % verb.decode(), dec.raw)
            self._reply(conn, rec, scope, b"NO", (), None, b"authenticate first")
        elif verb in (b"RENAMESCRIPT", b"CHECKSCRIPT", b"NOOP") and not st.version:
            if verb != b"NOOP":
                self.notes.append((conn.id, self.net.call_id, "%s sent on a connection that was not offered VERSION" % verb.decode()))
            rec.note = "unsupported"
            self._reply(conn, rec, scope, b"NO", (), None, b"unknown command")
        else:
            handler(conn, dec, rec, scope)
        rec.after = self.snapshot()

        if fault == F_DELAYED:
            # the command is applied and answered, but the answer takes longer than the client's read timeout: the
            # connection stays usable and the late reply is still in the stream afterwards
            for sg in conn.segments[seg_before:]:
                sg.delay = 1
            rec.note = "reply delayed"
        if fault in (F_LOST_SILENT, F_LOST_CLOSE, F_TRUNC, F_LOST_RESET, F_TRUNC_SILENT, F_TRUNC_RESET):
            # the command was applied; withdraw (part of) the reply
            segs = conn.segments[seg_before:]
            del conn.segments[seg_before:]
            if fault in (F_TRUNC, F_TRUNC_SILENT, F_TRUNC_RESET) and segs:
                data = b"".join(s.data for s in segs)
                with self.ch.abs_scope(scope):
                    cut = self.ch.srv.int("trunc", len(data))
                rec.raw = data[:cut]
                self.net.enqueue(conn, data[:cut], scope + ".t")
            else:
                rec.raw = b""
            rec.note = "reply lost"
            if fault in (F_LOST_SILENT, F_TRUNC_SILENT):
                st.closed = True
            else:
                self._close(conn)
                if fault in (F_LOST_RESET, F_TRUNC_RESET):
                    conn.reset = True

    # individual verbs -------------------------------------------------------
    def _do_capability(self, conn, dec, rec, scope):
        rec.applied = True
        dv = self.data_variation
        self.data_variation = False
        try:
            self._reply(conn, rec, scope, b"OK", self._cap_lines(conn, scope), None, b"capability completed")
        finally:
            self.data_variation = dv

    def _do_noop(self, conn, dec, rec, scope):
        rec.applied = True
        code = (b"TAG", dec.args[0]) if dec.args else None
        self._reply(conn, rec, scope, b"OK", (), code, b"done")

    def _do_unauthenticate(self, conn, dec, rec, scope):
        self._reply(conn, rec, scope, b"NO", (), None, b"not supported")

    def _do_logout(self, conn, dec, rec, scope):
        rec.applied = True
        self._reply(conn, rec, scope, b"OK", (), None, b"bye", close=True)

    def _do_starttls(self, conn, dec, rec, scope):
        st = conn.state
        if st.tls:
            self.violation(conn, "STARTTLS on a connection that is already under TLS", dec.raw)
            self._reply(conn, rec, scope, b"NO", (), None, b"already under TLS")
            return
        if not self.cfg.starttls:
            rec.note = "starttls-unavailable"
            self._reply(conn, rec, scope, b"NO", (), None, b"TLS not available")
            return
        rec.applied = True
        self._reply(conn, rec, scope, b"OK", (), None, b"begin TLS negotiation")
        if self.inject_after_starttls and conn.segments:
            # a man in the middle appends a plaintext capability block to the OK (STARTTLS command injection):
            # whatever arrives before the handshake must not be taken for the post-handshake capabilities
            r = Renderer(lambda k, v: False)
            fake = r.render(Reply(b"OK", self._cap_lines(conn), None, b"injected"))
            seg = conn.segments[-1]
            seg.data = seg.data + fake
            rec.note = "plaintext-injected"
            self.fault_counts["starttls:plaintext-injection"] = self.fault_counts.get("starttls:plaintext-injection", 0) + 1
        st.awaiting_handshake = True
        if st.buf:
            self.violation(conn, "bytes pipelined after STARTTLS", bytes(st.buf))
            del st.buf[:]

    def _do_havespace(self, conn, dec, rec, scope):
        name, size = dec.args
        ok, code, text = self._space(name, size)
        rec.applied = ok
        self._reply(conn, rec, scope, b"OK" if ok else b"NO", (), code, text)

    def _space(self, name, size):
        cfg = self.cfg
        if not name_ok(name):
            return False, None, b"invalid script name"
        if size > cfg.max_script_size:
            return False, (b"QUOTA/MAXSIZE", None), b"script too large"
        if name not in self.scripts and len(self.scripts) >= cfg.max_scripts:
            return False, (b"QUOTA/MAXSCRIPTS", None), b"too many scripts"
        total = sum(len(v) for k, v in self.scripts.items() if k != name)
        if total + size > cfg.max_total:
            return False, (b"QUOTA", None), b"quota exceeded"
        return True, None, b"ok"

    def _valid(self, content):
        if self.validator is not None:
            return self.validator(content)
        if b"INVALID" in content:
            return False, b"line 1: syntax error"
        return True, b""

    def _do_putscript(self, conn, dec, rec, scope):
        name, content = dec.args
        ok, code, text = self._space(name, len(content))
        if ok:
            ok, text = self._valid(content)
            code = None
        if ok:
            self.scripts[name] = content
            rec.applied = True
            self._reply(conn, rec, scope, b"OK", (), None, b"putscript completed")
        else:
            self._reply(conn, rec, scope, b"NO", (), code, text)

    def _do_checkscript(self, conn, dec, rec, scope):
        ok, text = self._valid(dec.args[0])
        rec.applied = ok
        if ok:
            self._reply(conn, rec, scope, b"OK", (), None, b"script ok")
        else:
            self._reply(conn, rec, scope, b"NO", (), None, text)

    def _do_listscripts(self, conn, dec, rec, scope):
        names = list(self.scripts)
        if self.order_variation and len(names) > 1:
            with self.ch.abs_scope(scope):
                o = self.ch.srv.int("order", 3)
            if o == 1:
                names.reverse()
            elif o == 2:
                names = names[1:] + names[:1]
        lines = []
        for n in names:
            l = [("s", n)]
            if n == self.active:
                marker = b"ACTIVE"
                if self.order_variation:
                    with self.ch.abs_scope(scope):
                        marker = [b"ACTIVE", b"active", b"Active"][self.ch.srv.weighted("active.case", [4, 1, 1])]
                l.append(("a", marker))
            lines.append(l)
        rec.applied = True
        self._reply(conn, rec, scope, b"OK", lines, None, b"listscripts completed")

    def _do_getscript(self, conn, dec, rec, scope):
        name = dec.args[0]
        if name not in self.scripts:
            self._reply(conn, rec, scope, b"NO", (), (b"NONEXISTENT", None), b"no such script")
            return
        rec.applied = True
        self._reply(conn, rec, scope, b"OK", [[("s", self.scripts[name])]], None, b"getscript completed")

    def _do_setactive(self, conn, dec, rec, scope):
        name = dec.args[0]
        if name == b"":
            self.active = None
            rec.applied = True
            self._reply(conn, rec, scope, b"OK", (), None, b"deactivated")
            return
        if name not in self.scripts:
            self._reply(conn, rec, scope, b"NO", (), (b"NONEXISTENT", None), b"no such script")
            return
        self.active = name
        rec.applied = True
        self._reply(conn, rec, scope, b"OK", (), None, b"setactive completed")

    def _do_deletescript(self, conn, dec, rec, scope):
        name = dec.args[0]
        if name not in self.scripts:
            self._reply(conn, rec, scope, b"NO", (), (b"NONEXISTENT", None), b"no such script")
            return
        if name == self.active:
            self._reply(conn, rec, scope, b"NO", (), (b"ACTIVE", None), b"cannot delete the active script")
            return
        del self.scripts[name]
        rec.applied = True
        self._reply(conn, rec, scope, b"OK", (), None, b"deletescript completed")

    def _do_renamescript(self, conn, dec, rec, scope):
        old, new = dec.args
        if old not in self.scripts:
            self._reply(conn, rec, scope, b"NO", (), (b"NONEXISTENT", None), b"no such script")
            return
        if new in self.scripts:
            self._reply(conn, rec, scope, b"NO", (), (b"ALREADYEXISTS", None), b"target exists")
            return
        if not name_ok(new):
            self._reply(conn, rec, scope, b"NO", (), None, b"invalid script name")
            return
        self.scripts = {(new if k == old else k): v for k, v in self.scripts.items()}
        if self.active == old:
            self.active = new
        rec.applied = True
        self._reply(conn, rec, scope, b"OK", (), None, b"renamescript completed")

    # -- SASL ----------------------------------------------------------------
    def _b64(self, conn, val, raw):
        try:
            return base64.b64decode(val, validate=True)
        except (binascii.Error, ValueError):
            self.violation(conn, "SASL data is not valid base64", raw)
            return None

    def _do_authenticate(self, conn, dec, rec, scope):
        st = conn.state
        cfg = self.cfg
        mech_raw = dec.args[0]
        mech = mech_raw.decode("utf-8", "replace").upper()
        if self.cfg.starttls and not st.tls:
            rec.note = "auth-on-plain"
        announced = cfg.sasl_pre if (not st.tls or cfg.sasl_post is None) else cfg.sasl_post
        if announced is False or announced == "bare":
            announced = None
        seen = {"conn": conn.id, "mech": mech, "announced": list(announced or []), "channel": conn.channel,
                "tls": st.tls, "decoded": None, "accepted": None, "scope": scope, "steps": 0}
        self.sasl_seen.append(seen)
        rec.sasl = seen
        st.sasl = {"mech": mech, "rec": rec, "scope": scope, "seen": seen, "stage": 0, "data": []}
        if st.user is not None:
            st.sasl = None
            self._reply(conn, rec, scope, b"NO", (), None, b"already authenticated")
            return
        if announced is None or mech not in announced:
            seen["unannounced"] = True
            st.sasl = None
            seen["accepted"] = False
            self._reply(conn, rec, scope, b"NO", (), None, b"unsupported mechanism")
            return
        initial = None
        if len(dec.args) > 1:
            initial = self._b64(conn, dec.args[1], dec.raw)
            if initial is None:
                self._sasl_finish(conn, False, b"bad base64")
                return
        if mech == "PLAIN":
            if initial is None:
                self._challenge(conn, b"")
            else:
                self._plain(conn, initial)
        elif mech == "LOGIN":
            if initial is not None:
                self.violation(conn, "LOGIN does not take an initial response", dec.raw)
                self._sasl_finish(conn, False, b"unexpected initial response")
                return
            self._challenge(conn, b"Username:")
        elif mech == "OAUTHBEARER":
            if initial is None:
                self._challenge(conn, b"")
            else:
                self._oauth(conn, initial)
        elif mech == "DIGEST-MD5":
            if initial is not None:
                self.violation(conn, "DIGEST-MD5 does not take an initial response", dec.raw)
                self._sasl_finish(conn, False, b"unexpected initial response")
                return
            parts = ['realm="%s"' % cfg.realm, 'nonce="%s"' % cfg.nonce, 'qop="%s"' % cfg.digest_qop, "charset=utf-8", "algorithm=md5-sess"]
            if self.cap_variation or self.data_variation:
                # the order of the directives of a digest-challenge is free (RFC 2831 2.1.1)
                with self.ch.abs_scope(scope):
                    o = self.ch.srv.int("digest.order", 4)
                if o == 1:
                    parts = parts[::-1]
                elif o == 2:
                    parts = [parts[3], parts[4], parts[2], parts[1], parts[0]]
                elif o == 3:
                    parts = [parts[1], parts[3], parts[0], parts[4], parts[2]]
            if not cfg.realm:
                parts = [x for x in parts if not x.startswith("realm=")]       # no realm offered at all
            self._challenge(conn, ",".join(parts).encode())
        else:
            # announced but not modelled (SCRAM-SHA-1, GSSAPI, ...): refuse
            self._sasl_finish(conn, False, b"mechanism not available")

    def _challenge(self, conn, payload):
        st = conn.state
        sasl = st.sasl
        scope = "%s.s%d" % (sasl["scope"], sasl["stage"])
        rep = Reply(None, [[("s", base64.b64encode(payload))]])
        dv = self.data_variation
        try:
            self._send(conn, rep, scope)
        finally:
            self.data_variation = dv

    def _sasl_step(self, conn, val, raw):
        st = conn.state
        sasl = st.sasl
        sasl["stage"] += 1
        sasl["seen"]["steps"] += 1
        data = self._b64(conn, val, raw)
        if data is None:
            self._sasl_finish(conn, False, b"bad base64")
            return
        mech = sasl["mech"]
        if mech == "PLAIN":
            self._plain(conn, data)
        elif mech == "LOGIN":
            sasl["data"].append(data)
            if len(sasl["data"]) == 1:
                if self.login_early_reject:
                    # e.g. unknown or disabled user: refused without asking for the password
                    seen = sasl["seen"]
                    seen["decoded"] = {"authcid": data, "password": None, "authzid": None}
                    self._sasl_finish(conn, False, b"unknown user")
                    return
                self._challenge(conn, b"Password:")
            else:
                login, pw = sasl["data"]
                self._verify(conn, {"authcid": login, "password": pw, "authzid": None})
        elif mech == "OAUTHBEARER":
            if sasl.get("failed"):
                # the client's dummy response to the error challenge
                self._sasl_finish(conn, False, b"authentication failed")
            else:
                self._oauth(conn, data)
        elif mech == "DIGEST-MD5":
            if sasl.get("rspauth_sent"):
                if data != b"":
                    self.violation(conn, "non-empty response to the DIGEST-MD5 rspauth challenge", raw)
                self._sasl_finish(conn, True, b"authenticated")
            else:
                self._digest(conn, data)

    def _plain(self, conn, data):
        parts = data.split(b"\0")
        if len(parts) != 3:
            self.violation(conn, "PLAIN message is not authzid NUL authcid NUL passwd", data)
            self._sasl_finish(conn, False, b"bad PLAIN message")
            return
        self._verify(conn, {"authzid": parts[0], "authcid": parts[1], "password": parts[2]})

    def _oauth(self, conn, data):
        dec = {"raw": data}
        ok = True
        try:
            head, rest = data.split(b"\x01", 1)
            g = head.split(b",")
            if len(g) != 3 or g[0] not in (b"n", b"y", b"p") or g[2] != b"":
                raise ValueError("gs2 header %r" % head)
            authz = None
            if g[1]:
                if not g[1].startswith(b"a="):
                    raise ValueError("gs2 authzid %r" % g[1])
                raw = g[1][2:]
                # saslname: '=' only as =2C / =3D
                i = 0
                out = bytearray()
                while i < len(raw):
                    if raw[i:i + 1] == b"=":
                        esc = raw[i:i + 3]
                        if esc == b"=2C":
                            out += b","
                        elif esc == b"=3D":
                            out += b"="
                        else:
                            raise ValueError("bad saslname escape %r" % esc)
                        i += 3
                    else:
                        out += raw[i:i + 1]
                        i += 1
                authz = bytes(out)
            if not rest.endswith(b"\x01\x01"):
                raise ValueError("missing final ^A^A")
            kvs = rest[:-2].split(b"\x01") if rest[:-2] else []
            kv = {}
            for item in kvs:
                k, v = item.split(b"=", 1)
                kv[k] = v
            auth = kv.get(b"auth")
            if auth is None or not auth.startswith(b"Bearer "):
                raise ValueError("no auth=Bearer")
            dec.update({"authzid": authz, "token": auth[len(b"Bearer "):], "kv": sorted(kv)})
        except Exception as e:
            ok = False
            self.violation(conn, "malformed OAUTHBEARER message: %s" % e, data)
        if not ok:
            self._sasl_finish(conn, False, b"bad OAUTHBEARER message")
            return
        self._verify(conn, {"authzid": dec["authzid"], "authcid": dec["authzid"], "password": dec["token"],
                            "oauth": True})

    def _digest(self, conn, data):
        cfg = self.cfg
        # parse directives: key=value or key="value" separated by commas
        d = {}
        try:
            # RFC 2831: without a charset=utf-8 directive the response is ISO 8859-1
            probe = data.decode("latin-1")
            utf8 = "charset=utf-8" in probe.replace(" ", "").lower()
            s = data.decode("utf-8") if utf8 else probe
            i = 0
            n = len(s)
            while i < n:
                j = s.index("=", i)
                k = s[i:j].strip()
                i = j + 1
                if i < n and s[i] == '"':
                    i += 1
                    v = []
                    while s[i] != '"':
                        if s[i] == "\\":
                            i += 1
                        v.append(s[i])
                        i += 1
                    i += 1
                    d[k] = "".join(v)
                else:
                    j = s.find(",", i)
                    if j == -1:
                        j = n
                    d[k] = s[i:j]
                    i = j
                if i < n:
                    if s[i] != ",":
                        raise ValueError("expected comma at %d" % i)
                    i += 1
        except Exception as e:
            self.violation(conn, "malformed DIGEST-MD5 response: %s" % e, data)
            self._sasl_finish(conn, False, b"bad digest response")
            return
        conn.state.sasl["digest"] = d
        self._verify(conn, {"authcid": d.get("username", "").encode("utf-8"), "authzid": (d.get("authzid") or "").encode("utf-8") if "authzid" in d else None,
                            "password": None, "digest": d})

    @staticmethod
    def digest_response(username, realm, password, nonce, cnonce, nc, qop, uri, authzid=None, check=False):
        """RFC 2831 response-value, everything as bytes."""
        h = lambda b: hashlib.md5(b).digest()
        hx = lambda b: hashlib.md5(b).hexdigest().encode()
        a1 = h(username + b":" + realm + b":" + password) + b":" + nonce + b":" + cnonce
        if authzid:
            a1 += b":" + authzid
        a2 = (b"" if check else b"AUTHENTICATE") + b":" + uri
        return hx(hx(a1) + b":" + nonce + b":" + nc + b":" + cnonce + b":" + qop + b":" + hx(a2))

    def _verify(self, conn, creds):
        st = conn.state
        sasl = st.sasl
        seen = sasl["seen"]
        seen["decoded"] = creds
        cfg = self.cfg
        users = cfg.users
        ok = False
        try:
            login = creds["authcid"].decode("utf-8") if creds.get("authcid") is not None else None
        except UnicodeDecodeError:
            login = None
        if "digest" in creds:
            d = creds["digest"]
            pw = users.get(login)
            if pw is not None and d.get("nonce") == cfg.nonce and d.get("qop", "auth") == "auth" and d.get("nc") == "00000001":
                exp = self.digest_response(
                    login.encode("utf-8"), d.get("realm", "").encode("utf-8"), pw.encode("utf-8"),
                    cfg.nonce.encode(), d.get("cnonce", "").encode("utf-8"), b"00000001", b"auth",
                    d.get("digest-uri", "").encode("utf-8"),
                    d["authzid"].encode("utf-8") if d.get("authzid") else None)
                ok = exp.decode() == d.get("response")
                seen["digest_expected"] = exp.decode()
        elif creds.get("oauth"):
            tok = creds["password"]
            try:
                ok = login is not None and users.get(login) == tok.decode("utf-8")
            except UnicodeDecodeError:
                ok = False
        else:
            try:
                ok = login is not None and users.get(login) == creds["password"].decode("utf-8")
            except UnicodeDecodeError:
                ok = False
        if self.auth_hook is not None:
            ok = self.auth_hook(conn, creds, ok)
        if "digest" in creds and "auth" not in [q.strip() for q in cfg.digest_qop.split(",")]:
            ok = False        # the server offered only protections this exchange does not use: it refuses the response
        if ok and "digest" in creds:
            d = creds["digest"]
            pw = users[login]
            rsp = self.digest_response(
                login.encode("utf-8"), d.get("realm", "").encode("utf-8"), pw.encode("utf-8"),
                cfg.nonce.encode(), d.get("cnonce", "").encode("utf-8"), b"00000001", b"auth",
                d.get("digest-uri", "").encode("utf-8"),
                d["authzid"].encode("utf-8") if d.get("authzid") else None, check=True)
            sasl["final_code"] = (b"SASL", base64.b64encode(b"rspauth=" + rsp))
            if self.digest_final_in_ok:
                # RFC 5804 2.1: the final server data travels in the SASL response code of the completion response
                sasl["user"] = login
                self._sasl_finish(conn, True, b"authenticated")
                return
            sasl["rspauth_sent"] = True
            sasl["user"] = login
            sasl["stage"] += 1
            self._challenge(conn, b"rspauth=" + rsp)
            return
        if not ok and creds.get("oauth") and self.oauth_challenge_on_fail:
            sasl["failed"] = True
            sasl["stage"] += 1
            self._challenge(conn, b'{"status":"invalid_token","schemes":"bearer"}')
            return
        sasl["user"] = login
        self._sasl_finish(conn, ok, b"authenticated" if ok else b"authentication failed")

    def _sasl_finish(self, conn, ok, text):
        st = conn.state
        sasl = st.sasl
        st.sasl = None
        rec = sasl["rec"]
        seen = sasl["seen"]
        scope = "%s.f" % sasl["scope"]
        # a forced refusal of the final verdict
        if ok and self.fault_hook is not None:
            k = self.fault_hook(conn, "<auth-verdict>", scope)
            if k == F_NO:
                ok = False
                text = b"try later"
                if self.no_with_sasl_code and sasl.get("final_code"):
                    # e.g. right password on a disabled account: a refusal that still carries valid final SASL data
                    seen["accepted"] = False
                    self._reply(conn, rec, scope, b"NO", (), sasl["final_code"], b"account disabled")
                    return
            elif k == F_BYE:
                seen["accepted"] = False
                code = (b"REFERRAL", b"sieve://other.example") if self.bye_with_referral else None
                self._reply(conn, rec, scope, b"BYE", (), code, b"shutting down")
                return
        seen["accepted"] = ok
        if ok:
            st.user = sasl.get("user")
            st.auth_ok_count += 1
            rec.applied = True
            code = sasl.get("final_code") if (self.digest_final_in_ok and not sasl.get("rspauth_sent")) else None
            self._reply(conn, rec, scope, b"OK", (), code, text)
        else:
            self._reply(conn, rec, scope, b"NO", (), None, text)
