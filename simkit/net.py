"""Socket / TLS seam: in-process stand-ins for the ``socket`` and ``ssl``
modules as seen by ``sievelib.managesieve``; virtual clock; delivery policies.
"""

import socket as _real_socket
import ssl as _real_ssl


class SeamGap(BaseException):
    """The code under test touched something the seam does not provide:
    a harness error, never a property verdict."""


class SimHang(BaseException):
    """The call under test would never return (spins on EOF / blocks forever /
    keeps timing out).  BaseException so that no ``except Exception`` in the
    code under test can swallow it."""


class SimClock:
    def __init__(self):
        self.now = 0.0


POLICIES = ("whole", "fixed", "random", "cutset", "boundary")
FIXED_SIZES = (1, 2, 3, 7, 64)

MAX_EMPTY_READS = 1000
MAX_TIMEOUTS = 64


class Segment:
    __slots__ = ("data", "pos", "policy", "fixed", "cuts", "scope", "marks",
                 "spans", "kind", "delay")

    def __init__(self, data, scope, marks=(), spans=(), kind="reply"):
        self.data = data
        self.pos = 0
        self.policy = 0
        self.fixed = 0
        self.cuts = ()
        self.scope = scope
        self.marks = sorted(m for m in marks if 0 < m < len(data))
        self.spans = spans
        self.kind = kind
        self.delay = 0        # number of read timeouts that elapse before this segment arrives

    def __repr__(self):
        return "<seg %s %d/%d %s>" % (self.scope, self.pos, len(self.data),
                                      POLICIES[self.policy])


class Conn:
    """One simulated TCP connection."""

    def __init__(self, net, cid):
        self.net = net
        self.id = cid
        self.segments = []       # pending server->client segments
        self.server_closed = False
        self.client_closed = False
        self.channel = "plain"   # current channel for writes/reads
        self.tls_established = False
        self.timeout = None
        self.state = None        # server-side per-connection state
        self.seg_count = 0
        self.bytes_s2c = 0
        self.reset = False        # the peer sent RST: reads and writes fail with ECONNRESET / EPIPE

    def __repr__(self):
        return "<conn#%d>" % self.id


class Stats:
    def __init__(self):
        self.recv_calls = 0
        self.recv_short = 0           # returned fewer than asked although more was pending
        self.recv_timeouts = 0
        self.recv_eof = 0
        self.policy_counts = {p: 0 for p in POLICIES}
        self.probes = {}

    def probe(self, name, n=1):
        self.probes[name] = self.probes.get(name, 0) + n


class SimNet:
    """Owns connections, the delivery policy, the write log and the event log."""

    def __init__(self, ch, server, clock=None, net_mode=None):
        self.ch = ch
        self.server = server
        self.clock = clock or SimClock()
        self.conns = []
        self.events = []          # canonical event log
        self.writes = []          # (call_id, conn_id, channel, bytes)
        self.call_id = 0
        self.stats = Stats()
        self._empty_reads = 0
        self._timeouts = 0
        self.send_calls = 0       # number of send() (not sendall) calls, names their draw scope
        self.sendall_calls = 0
        self.sendall_faults = False   # scenario knob: sendall may time out before writing anything
        self.cut_log = []         # (segment scope, span kind) for every recv that ended inside a reply
        self.seg_log = []         # (scope, length) of every enqueued segment
        self.socket_module = _SocketModule(self)
        self.ssl_module = _SSLModule(self)
        # run-level delivery mode (drawn once): 0 mixed-per-reply, 1 whole,
        # 2.. fixed sizes, last = random everywhere
        with ch.abs_scope("run"):
            if net_mode is None:
                self.mode = ch.net.weighted("mode", [6, 1, 1, 1, 1, 1, 1, 2])
            else:
                self.mode = net_mode
        server.attach(self)

    # -- call bracketing (for per-call guards and write attribution) -------
    def begin_call(self, call_id):
        self.call_id = call_id
        self._empty_reads = 0
        self._timeouts = 0

    def writes_of(self, call_id):
        return [w for w in self.writes if w[0] == call_id]

    # -- connection management ------------------------------------------
    def connect(self, addr):
        conn = Conn(self, len(self.conns))
        refused = self.server.on_connect(conn, addr)
        self.events.append(("connect", conn.id, repr(addr), bool(refused)))
        if refused:
            raise ConnectionRefusedError(111, "Connection refused")
        self.conns.append(conn)
        return conn

    # -- server -> client ---------------------------------------------------
    def enqueue(self, conn, data, scope, marks=(), spans=(), kind="reply"):
        if not data:
            return
        seg = Segment(data, scope, marks, spans, kind)
        self.seg_log.append((scope, len(data)))
        self._plan(seg)
        conn.segments.append(seg)
        conn.seg_count += 1
        conn.bytes_s2c += len(data)

    def _plan(self, seg):
        ch = self.ch
        n = len(seg.data)
        mode = self.mode
        with ch.abs_scope(seg.scope):
            if mode == 0:
                pol = ch.net.weighted("policy", [4, 3, 3, 5, 5])
            elif mode == 1:
                pol = 0
            elif mode == 7:
                pol = 2
            else:
                pol = 1
            seg.policy = pol
            if pol == 1:
                if mode == 0:
                    seg.fixed = FIXED_SIZES[ch.net.int("fixed", len(FIXED_SIZES))]
                else:
                    seg.fixed = FIXED_SIZES[mode - 2]
            elif pol == 3:
                if n > 1:
                    nc = 1 + ch.net.weighted("ncuts", [5, 3, 1])
                    seg.cuts = sorted(set(
                        1 + ch.net.int("cut", n - 1) for _ in range(nc)))
                else:
                    seg.policy = 0
            elif pol == 4:
                if seg.marks:
                    nc = 1 + ch.net.weighted("ncuts", [5, 3, 1])
                    seg.cuts = sorted(set(
                        seg.marks[ch.net.int("mark", len(seg.marks))] for _ in range(nc)))
                else:
                    seg.policy = 0
        self.stats.policy_counts[POLICIES[seg.policy]] += 1

    def recv(self, conn, n):
        st = self.stats
        st.recv_calls += 1
        if n <= 0:
            return b""
        while conn.segments and conn.segments[0].pos >= len(conn.segments[0].data):
            conn.segments.pop(0)
        if not conn.segments:
            if conn.reset:
                st.probe("recv_reset")
                self._empty_reads += 1
                self.events.append(("recv", conn.id, n, -3))
                if self._empty_reads > MAX_EMPTY_READS:
                    raise SimHang("keeps reading a reset connection")
                raise ConnectionResetError(104, "Connection reset by peer")
            if conn.server_closed or conn.client_closed:
                st.recv_eof += 1
                self._empty_reads += 1
                self.events.append(("recv", conn.id, n, -1))
                if self._empty_reads > MAX_EMPTY_READS:
                    raise SimHang("spins on EOF: %d empty reads in one call" % self._empty_reads)
                return b""
            if conn.timeout is None:
                raise SimHang("recv on a silent peer without a timeout blocks forever")
            st.recv_timeouts += 1
            self._timeouts += 1
            self.clock.now += conn.timeout
            self.events.append(("recv", conn.id, n, -2))
            if self._timeouts > MAX_TIMEOUTS:
                raise SimHang("keeps retrying after %d timeouts in one call" % self._timeouts)
            raise _real_socket.timeout("timed out")
        if conn.segments and conn.segments[0].delay > 0 and conn.segments[0].pos == 0:
            if conn.timeout is None:
                conn.segments[0].delay = 0
            else:
                conn.segments[0].delay -= 1
                st.recv_timeouts += 1
                st.probe("late_reply")
                self._timeouts += 1
                self.clock.now += conn.timeout
                self.events.append(("recv", conn.id, n, -2))
                raise _real_socket.timeout("timed out")
        out = bytearray()
        want = n
        while want > 0 and conn.segments:
            seg = conn.segments[0]
            avail = len(seg.data) - seg.pos
            if avail <= 0:
                conn.segments.pop(0)
                continue
            k = min(want, avail)
            pol = seg.policy
            if pol == 1:
                k = min(k, seg.fixed)
            elif pol == 2:
                with self.ch.abs_scope(seg.scope):
                    k = k - self.ch.net.int("short", k)
            elif pol in (3, 4):
                for c in seg.cuts:
                    if c > seg.pos:
                        k = min(k, c - seg.pos)
                        break
            if out and (pol != 0 or seg.delay > 0):
                break  # never glue into a non-whole (or not yet arrived) segment
            chunk = seg.data[seg.pos:seg.pos + k]
            self._probe_cut(seg, seg.pos + k, n)
            seg.pos += k
            out += chunk
            want -= k
            if seg.pos >= len(seg.data):
                conn.segments.pop(0)
                if pol != 0:
                    break
                if conn.segments:
                    st.probe("glued_replies")
            else:
                break
        if len(out) < n and conn.segments:
            st.recv_short += 1
        self.events.append(("recv", conn.id, n, len(out)))
        return bytes(out)

    def _probe_cut(self, seg, end, asked):
        """Record where a recv ended, in terms of the reply's structure."""
        if end >= len(seg.data):
            return
        st = self.stats
        hit = False
        for kind, s, e in seg.spans:
            if s < end < e:
                hit = True
                self.cut_log.append((seg.scope, kind))
                st.probe("cut_in_" + kind)
                if kind == "lit-body" and asked > end - seg.pos:
                    st.probe("short_read_in_literal")
        d = seg.data
        if not hit:
            self.cut_log.append((seg.scope, "between"))
        if d[end - 1:end] == b"\r" and d[end:end + 1] == b"\n":
            self.cut_log.append((seg.scope, "crlf"))
            st.probe("cut_between_CR_LF")
        if end < len(d) and (d[end] & 0xC0) == 0x80:
            st.probe("cut_in_multibyte_char")

    # -- client -> server ---------------------------------------------------
    def send(self, conn, channel, data):
        data = bytes(data)
        self.writes.append((self.call_id, conn.id, channel, data))
        self.events.append(("send", conn.id, channel, data))
        if conn.reset:
            self.stats.probe("send_on_reset")
            raise BrokenPipeError(32, "Broken pipe")
        if conn.server_closed:
            return
        self.server.on_bytes(conn, channel, data)

    def client_close(self, conn):
        if not conn.client_closed:
            conn.client_closed = True
            self.server.on_client_close(conn)


# ---------------------------------------------------------------------------
# socket stand-ins
# ---------------------------------------------------------------------------

class FakeSocket:
    channel = "plain"

    def __init__(self, net, conn=None):
        self._net = net
        self._conn = conn
        self._closed = False
        self._detached = False
        self._timeout = None

    def __repr__(self):
        return "<FakeSocket %s %s>" % (self.channel, self._conn)

    def __getattr__(self, name):
        raise SeamGap("socket attribute %r is not provided by the seam" % name)

    # connection
    def connect(self, addr):
        if self._conn is not None:
            raise OSError(106, "already connected")
        self._conn = self._net.connect(addr)
        self._conn.timeout = self._timeout

    def _chk(self):
        if self._closed or self._conn is None:
            raise OSError(9, "Bad file descriptor")

    def settimeout(self, t):
        self._timeout = t
        if self._conn is not None and not self._detached:
            self._conn.timeout = t

    def gettimeout(self):
        return self._timeout

    def setblocking(self, flag):
        self.settimeout(None if flag else 0.0)

    def setsockopt(self, *a):
        pass

    def getpeername(self):
        return ("192.0.2.1", 4190)

    def fileno(self):
        raise SeamGap("fileno() of a simulated socket")

    def recv(self, n, flags=0):
        self._chk()
        if self._conn.channel != self.channel:
            # reading the plain socket after TLS was established (or the
            # reverse) yields nothing meaningful: treat as silent peer
            raise SimHang("recv on the %s socket while the connection is on the %s channel"
                          % (self.channel, self._conn.channel))
        return self._net.recv(self._conn, n)

    def recv_into(self, buf, nbytes=0, flags=0):
        n = nbytes or len(buf)
        data = self.recv(n)
        buf[:len(data)] = data
        return len(data)

    def send(self, data, flags=0):
        """send() may accept fewer bytes than offered (sendall() never does):
        a drawn ``net`` choice, 0 = everything."""
        self._chk()
        data = bytes(data)
        n = len(data)
        if n > 1:
            net = self._net
            with net.ch.abs_scope("send#%d" % net.send_calls):
                k = net.ch.net.weighted("sendshort", [2, 1, 1])
                if k == 1:
                    n = 1 + net.ch.net.int("accepted", n - 1)
                elif k == 2:
                    n = min(n, [1, 7, 512, 1460][net.ch.net.int("mss", 4)])
            net.send_calls += 1
            if n < len(data):
                net.stats.probe("short_send")
        self._net.send(self._conn, self.channel, data[:n])
        return n

    def sendall(self, data, flags=0):
        self._chk()
        net = self._net
        if net.sendall_faults:
            # a full send buffer: sendall gives up after the socket timeout, nothing was written (drawn, 0 = no fault)
            with net.ch.abs_scope("sendall#%d" % net.sendall_calls):
                fail = net.ch.net.weighted("sendfail", [40, 1])
            net.sendall_calls += 1
            if fail:
                net.stats.probe("sendall_timeout")
                net.clock.now += self._timeout or 0
                net.events.append(("sendfail", self._conn.id))
                raise _real_socket.timeout("timed out")
        net.send(self._conn, self.channel, data)
        return None

    def shutdown(self, how):
        self._chk()

    def close(self):
        if not self._closed:
            self._closed = True
            if self._conn is not None and not self._detached:
                self._net.client_close(self._conn)

    def detach(self):
        self._detached = True

    def makefile(self, mode="r", buffering=None, **k):
        """File object over the simulated connection (binary modes only), so
        that a reader rewritten on top of makefile() still runs in the seam."""
        import io
        if "b" not in mode:
            raise SeamGap("makefile(%r): only binary modes are provided" % mode)
        raw = _RawSock(self, "r" in mode, "w" in mode)
        if buffering == 0:
            return raw
        if "r" in mode and "w" in mode:
            return io.BufferedRWPair(raw, raw, buffering or io.DEFAULT_BUFFER_SIZE)
        if "w" in mode:
            return io.BufferedWriter(raw, buffering or io.DEFAULT_BUFFER_SIZE)
        return io.BufferedReader(raw, buffering or io.DEFAULT_BUFFER_SIZE)

    def __enter__(self):
        return self

    def __exit__(self, *a):
        self.close()


import io as _io


class _RawSock(_io.RawIOBase):
    def __init__(self, sock, r, w):
        _io.RawIOBase.__init__(self)
        self._sock = sock
        self._r, self._w = r, w

    def readable(self):
        return self._r

    def writable(self):
        return self._w

    def readinto(self, b):
        data = self._sock.recv(len(b))
        b[:len(data)] = data
        return len(data)

    def write(self, b):
        self._sock.sendall(bytes(b))
        return len(b)


class FakeTLSSocket(FakeSocket):
    channel = "tls"

    def __init__(self, net, conn, timeout):
        FakeSocket.__init__(self, net, conn)
        self._timeout = timeout

    def version(self):
        return "TLSv1.3"

    def getpeercert(self, binary_form=False):
        return {}

    def cipher(self):
        return ("TLS_AES_256_GCM_SHA384", "TLSv1.3", 256)


class _SocketModule:
    """Stand-in for the ``socket`` module."""

    timeout = _real_socket.timeout
    error = _real_socket.error
    gaierror = _real_socket.gaierror
    herror = _real_socket.herror
    AF_INET = _real_socket.AF_INET
    AF_INET6 = _real_socket.AF_INET6
    SOCK_STREAM = _real_socket.SOCK_STREAM
    SHUT_RDWR = _real_socket.SHUT_RDWR
    SHUT_RD = _real_socket.SHUT_RD
    SHUT_WR = _real_socket.SHUT_WR
    IPPROTO_TCP = _real_socket.IPPROTO_TCP
    TCP_NODELAY = _real_socket.TCP_NODELAY
    SOL_SOCKET = _real_socket.SOL_SOCKET
    SO_KEEPALIVE = _real_socket.SO_KEEPALIVE
    _GLOBAL_DEFAULT_TIMEOUT = _real_socket._GLOBAL_DEFAULT_TIMEOUT

    def __init__(self, net):
        self._net = net

    def __getattr__(self, name):
        raise SeamGap("socket.%s is not provided by the seam" % name)

    def create_connection(self, address, timeout=_real_socket._GLOBAL_DEFAULT_TIMEOUT,
                          source_address=None, **kw):
        s = FakeSocket(self._net)
        if timeout is not _real_socket._GLOBAL_DEFAULT_TIMEOUT:
            s.settimeout(timeout)
        s.connect(address)
        return s

    def socket(self, family=-1, type=-1, proto=-1, fileno=None):
        return FakeSocket(self._net)

    def getaddrinfo(self, host, port, *a, **k):
        return [(self.AF_INET, self.SOCK_STREAM, 6, "", (host, port))]


class _SSLContext:
    def __init__(self, net):
        self._net = net
        self.check_hostname = True
        self.verify_mode = _real_ssl.CERT_REQUIRED
        self.minimum_version = None
        self.options = 0

    def load_cert_chain(self, certfile, keyfile=None, password=None):
        pass

    def load_verify_locations(self, cafile=None, capath=None, cadata=None):
        pass

    def load_default_certs(self, purpose=None):
        pass

    def set_ciphers(self, c):
        pass

    def set_alpn_protocols(self, p):
        pass

    def wrap_socket(self, sock, server_side=False, do_handshake_on_connect=True,
                    suppress_ragged_eofs=True, server_hostname=None, session=None):
        return self._net.ssl_module._wrap(sock, server_hostname)


class _SSLModule:
    SSLError = _real_ssl.SSLError
    SSLCertVerificationError = _real_ssl.SSLCertVerificationError
    CertificateError = _real_ssl.CertificateError
    SSLZeroReturnError = _real_ssl.SSLZeroReturnError
    SSLWantReadError = _real_ssl.SSLWantReadError
    SSLWantWriteError = _real_ssl.SSLWantWriteError
    SSLEOFError = _real_ssl.SSLEOFError
    SSLSyscallError = _real_ssl.SSLSyscallError
    CERT_NONE = _real_ssl.CERT_NONE
    CERT_OPTIONAL = _real_ssl.CERT_OPTIONAL
    CERT_REQUIRED = _real_ssl.CERT_REQUIRED
    PROTOCOL_TLS_CLIENT = _real_ssl.PROTOCOL_TLS_CLIENT
    PROTOCOL_TLS = _real_ssl.PROTOCOL_TLS
    Purpose = _real_ssl.Purpose
    TLSVersion = _real_ssl.TLSVersion
    OP_NO_SSLv2 = _real_ssl.OP_NO_SSLv2
    OP_NO_SSLv3 = _real_ssl.OP_NO_SSLv3
    SSLContext = None  # set below

    def __init__(self, net):
        self._net = net

    def __getattr__(self, name):
        raise SeamGap("ssl.%s is not provided by the seam" % name)

    def create_default_context(self, purpose=None, cafile=None, capath=None, cadata=None):
        return _SSLContext(self._net)

    def SSLContext(self, protocol=None):
        return _SSLContext(self._net)

    def wrap_socket(self, sock, keyfile=None, certfile=None, **kw):
        return self._wrap(sock, None)

    def _wrap(self, sock, server_hostname):
        net = self._net
        if not isinstance(sock, FakeSocket) or isinstance(sock, FakeTLSSocket):
            raise SeamGap("wrap_socket on %r" % (sock,))
        conn = sock._conn
        if conn is None:
            raise ValueError("attempt to wrap an unconnected socket")
        pending = any(sg.pos < len(sg.data) for sg in conn.segments)
        outcome = net.server.on_tls_handshake(conn, server_hostname)
        if pending and outcome == "ok":
            # unread plaintext in the pipe would be fed to the TLS handshake, which cannot survive it
            conn.state.tls = False
            net.server._close(conn)
            outcome = "sslerror"
        net.events.append(("tls", conn.id, outcome))
        if outcome == "ok":
            conn.channel = "tls"
            conn.tls_established = True
            sock._detached = True
            nsock = FakeTLSSocket(net, conn, sock._timeout)
            net.server.after_tls(conn)
            return nsock
        if outcome == "sslerror":
            raise _real_ssl.SSLError(1, "[SSL: WRONG_VERSION_NUMBER] wrong version number (_ssl.c:1000)")
        if outcome == "certerror":
            raise _real_ssl.SSLCertVerificationError(
                1, "[SSL: CERTIFICATE_VERIFY_FAILED] certificate verify failed (_ssl.c:1000)")
        if outcome == "timeout":
            net.clock.now += conn.timeout or 0
            raise TimeoutError("_ssl.c:1000: The handshake operation timed out")
        if outcome == "eof":
            raise _real_ssl.SSLEOFError(8, "EOF occurred in violation of protocol (_ssl.c:1000)")
        raise SeamGap("unknown TLS outcome %r" % (outcome,))
