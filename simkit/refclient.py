"""Reference ManageSieve client for the null self-test.

Written for the harness, correct by construction: read-exactly loops, strict
reply grammar, escaping, authentication check on every script command, rename
emulation with a full existence check.  Every oracle must stay silent when
this client replaces sievelib.managesieve.Client; a complaint then is the
oracle's (or the reference server's) fault.
"""

import base64
import hashlib
import socket
import ssl

CRLF = b"\r\n"
IMPL = ["DIGEST-MD5", "PLAIN", "LOGIN", "OAUTHBEARER"]


class Error(Exception):
    pass


def _quote(b):
    if b"\r" in b or b"\n" in b or b"\0" in b or len(b) > 1024:
        return b"{%d+}\r\n%s" % (len(b), b)
    return b'"' + b.replace(b"\\", b"\\\\").replace(b'"', b'\\"') + b'"'


class RefClient:
    read_size = 4096
    read_timeout = 5

    def __init__(self, srvaddr, srvport=4190, debug=False):
        self.srvaddr = srvaddr
        self.srvport = srvport
        self.sock = None
        self.authenticated = False
        self.errcode = b""
        self.errmsg = b""
        self._buf = b""
        self._caps = {}

    # -- reading ----------------------------------------------------------
    def _recv(self, n):
        try:
            d = self.sock.recv(n)
        except (socket.timeout, ssl.SSLError, TimeoutError, OSError) as e:
            raise Error("read failed: %s" % e)
        if not d:
            raise Error("connection closed by server")
        return d

    def _line(self):
        while True:
            i = self._buf.find(CRLF)
            if i != -1:
                line, self._buf = self._buf[:i], self._buf[i + 2:]
                return line
            self._buf += self._recv(self.read_size)

    def _exact(self, n):
        while len(self._buf) < n:
            self._buf += self._recv(max(1, min(self.read_size, n - len(self._buf))))
        out, self._buf = self._buf[:n], self._buf[n:]
        return out

    def _items(self, line):
        """Parse the items of one response line; reads literals from the
        stream.  Returns a list of ("s", bytes) / ("a", bytes)."""
        items = []
        pos = 0
        while True:
            if pos >= len(line):
                return items
            c = line[pos:pos + 1]
            if c == b" ":
                pos += 1
                continue
            if c == b'"':
                out = bytearray()
                i = pos + 1
                while True:
                    if i >= len(line):
                        raise Error("unterminated quoted string in %r" % line)
                    ch = line[i:i + 1]
                    if ch == b'"':
                        break
                    if ch == b"\\":
                        out += line[i + 1:i + 2]
                        i += 2
                        continue
                    out += ch
                    i += 1
                items.append(("s", bytes(out)))
                pos = i + 1
                continue
            if c == b"{" and line.endswith(b"}") and line[pos + 1:-1].rstrip(b"+").isdigit() and line[pos + 1:-1].count(b"+") <= 1:
                # {n}; a peer that writes {n+} (which only clients may) means the same thing
                n = int(line[pos + 1:-1].rstrip(b"+"))
                data = self._exact(n)
                items.append(("s", data))
                line = self._line()      # rest of the logical line
                pos = 0
                continue
            if c == b"(":
                # response code: up to the matching parenthesis outside quotes
                i = pos + 1
                inq = False
                while i < len(line):
                    ch = line[i:i + 1]
                    if inq and ch == b"\\":
                        i += 2
                        continue
                    if ch == b'"':
                        inq = not inq
                    elif ch == b")" and not inq:
                        break
                    i += 1
                items.append(("c", line[pos + 1:i]))
                pos = i + 1
                continue
            j = line.find(b" ", pos)
            if j == -1:
                j = len(line)
            items.append(("a", line[pos:j]))
            pos = j

    def _response(self, maxlines=None):
        """Reads data lines up to the status line.  Returns (status, code,
        text, lines); with maxlines, stops after that many data lines with
        status None."""
        lines = []
        while True:
            line = self._line()
            head = line.split(b" ", 1)[0]
            if head in (b"OK", b"NO", b"BYE"):
                items = self._items(line[len(head):])
                code = b""
                text = b""
                for k, v in items:
                    if k == "c":
                        code = v
                    elif k == "s":
                        text = v
                if head == b"BYE":
                    raise Error("server said BYE: %r" % text)
                if head == b"NO":
                    self.errcode, self.errmsg = code, text
                return head, code, text, lines
            lines.append(self._items(line))
            if maxlines is not None and len(lines) >= maxlines:
                return None, b"", b"", lines

    def _send(self, data):
        try:
            self.sock.sendall(data)
        except OSError as e:
            raise Error("write failed: %s" % e)

    def _cmd(self, verb, *args, **kw):
        out = verb
        for a in args:
            if isinstance(a, int):
                out += b" %d" % a
            else:
                out += b" " + _quote(a)
        self._send(out + CRLF)
        return self._response(kw.get("maxlines"))

    def _need_auth(self):
        if not self.authenticated:
            raise Error("authentication required")

    # -- connection -------------------------------------------------------
    def _read_caps(self):
        status, code, text, lines = self._response()
        if status != b"OK":
            return False
        self._caps = {}
        for items in lines:
            if items and items[0][0] == "s":
                name = items[0][1].decode("utf-8", "replace").upper()
                self._caps[name] = items[1][1].decode("utf-8", "replace") if len(items) > 1 else None
        return True

    def connect(self, login, password, authz_id="", starttls=False, authmech=None):
        self.authenticated = False
        self._buf = b""
        self._caps = {}
        if self.sock is not None:
            try:
                self.sock.close()
            except OSError:
                pass
            self.sock = None
        try:
            self.sock = socket.create_connection((self.srvaddr, self.srvport))
            self.sock.settimeout(self.read_timeout)
        except OSError as e:
            raise Error("connection failed: %s" % e)
        if not self._read_caps():
            raise Error("no capabilities")
        if starttls:
            if "STARTTLS" not in self._caps:
                raise Error("STARTTLS not available")
            status = self._cmd(b"STARTTLS")[0]
            if status != b"OK":
                return False
            if self._buf:
                raise Error("plaintext data after STARTTLS OK")
            ctx = ssl.create_default_context()
            try:
                self.sock = ctx.wrap_socket(self.sock, server_hostname=self.srvaddr)
            except (ssl.SSLError, OSError, TimeoutError) as e:
                raise Error("TLS failed: %s" % e)
            if not self._read_caps():
                raise Error("no capabilities after TLS")
        if self._caps.get("SASL") is None:
            return False
        announced = self._caps["SASL"].split()
        if authmech in IMPL:
            cands = [authmech]
        else:
            cands = IMPL
        mech = None
        for m in cands:
            if m in announced:
                mech = m
                break
        if mech is None:
            return False
        L, P, Z = login.encode("utf-8"), password.encode("utf-8"), authz_id.encode("utf-8")
        ok = getattr(self, "_auth_" + mech.lower().replace("-", "_"))(L, P, Z)
        self.authenticated = bool(ok)
        return bool(ok)

    def _auth_plain(self, L, P, Z):
        msg = base64.b64encode(Z + b"\0" + L + b"\0" + P)
        return self._cmd(b"AUTHENTICATE", b"PLAIN", msg)[0] == b"OK"

    def _cont(self, payload):
        self._send(_quote(base64.b64encode(payload)) + CRLF)

    def _auth_login(self, L, P, Z):
        st = self._cmd(b"AUTHENTICATE", b"LOGIN", maxlines=1)[0]
        if st is not None:
            return False
        self._cont(L)
        if self._response(maxlines=1)[0] is not None:
            return False
        self._cont(P)
        return self._response()[0] == b"OK"

    def _auth_oauthbearer(self, L, P, Z):
        a = (Z or L).replace(b"=", b"=3D").replace(b",", b"=2C")
        msg = b"n,a=" + a + b",\x01auth=Bearer " + P + b"\x01\x01"
        st, code, text, lines = self._cmd(b"AUTHENTICATE", b"OAUTHBEARER", base64.b64encode(msg), maxlines=1)
        if st is None:
            # error challenge: acknowledge with ^A and read the final NO
            self._cont(b"\x01")
            st = self._response()[0]
        return st == b"OK"

    def _auth_digest_md5(self, L, P, Z):
        st, code, text, lines = self._cmd(b"AUTHENTICATE", b"DIGEST-MD5", maxlines=1)
        if st is not None:
            return False
        chal = base64.b64decode(lines[0][0][1]).decode("utf-8")
        params = {}
        for part in chal.split(","):
            if "=" in part:
                k, v = part.split("=", 1)
                params[k.strip()] = v.strip().strip('"')
        realm = params.get("realm", "").encode("utf-8")
        nonce = params["nonce"].encode("utf-8")
        import random as _r
        cnonce = b"refclientcnonce"
        uri = ("sieve/%s" % self.srvaddr).encode("utf-8")
        hx = lambda b: hashlib.md5(b).hexdigest().encode()
        a1 = hashlib.md5(L + b":" + realm + b":" + P).digest() + b":" + nonce + b":" + cnonce
        if Z:
            a1 += b":" + Z
        resp = hx(hx(a1) + b":" + nonce + b":00000001:" + cnonce + b":auth:" + hx(b"AUTHENTICATE:" + uri))
        q = lambda b: b.replace(b"\\", b"\\\\").replace(b'"', b'\\"')
        msg = b'username="' + q(L) + b'",'
        if realm:
            msg += b'realm="' + q(realm) + b'",'
        msg += b'nonce="' + nonce + b'",cnonce="' + cnonce + b'",nc=00000001,qop=auth,digest-uri="' + uri + b'",response=' + resp + b",charset=utf-8"
        if Z:
            msg += b',authzid="' + q(Z) + b'"'
        self._cont(msg)
        st, code, text, lines = self._response(maxlines=1)
        if st is not None:
            return st == b"OK"
        rsp = base64.b64decode(lines[0][0][1])
        exp = b"rspauth=" + hx(hx(a1) + b":" + nonce + b":00000001:" + cnonce + b":auth:" + hx(b":" + uri))
        if rsp != exp:
            self._send(b"*" + CRLF)
            return False
        self._send(b'""' + CRLF)
        return self._response()[0] == b"OK"

    def logout(self):
        self._cmd(b"LOGOUT")

    def capability(self):
        status, code, text, lines = self._cmd(b"CAPABILITY")
        if status != b"OK":
            return None
        return b"".join(b" ".join(_quote(v) for k, v in items) + CRLF for items in lines)

    # helper getters (same names as sievelib's client) --------------------
    def get_implementation(self):
        return self._caps["IMPLEMENTATION"]

    def get_sasl_mechanisms(self):
        return self._caps["SASL"].split()

    def has_tls_support(self):
        return "STARTTLS" in self._caps

    def get_sieve_capabilities(self):
        return self._caps["SIEVE"].split()

    # -- script commands ----------------------------------------------------
    def havespace(self, scriptname, scriptsize):
        self._need_auth()
        return self._cmd(b"HAVESPACE", scriptname.encode("utf-8"), int(scriptsize))[0] == b"OK"

    def listscripts(self):
        self._need_auth()
        status, code, text, lines = self._cmd(b"LISTSCRIPTS")
        if status != b"OK":
            return None
        active, others = None, []
        for items in lines:
            name = items[0][1].decode("utf-8")
            if any(k == "a" and v.upper() == b"ACTIVE" for k, v in items[1:]):
                active = name
            else:
                others.append(name)
        return (active, others)

    def getscript(self, name):
        self._need_auth()
        status, code, text, lines = self._cmd(b"GETSCRIPT", name.encode("utf-8"))
        if status != b"OK":
            return None
        body = lines[0][0][1].decode("utf-8")
        return body.replace("\r\n", "\n")

    def _literal(self, content):
        b = content.encode("utf-8")
        return b"{%d+}\r\n%s" % (len(b), b)

    def putscript(self, name, content):
        self._need_auth()
        self._send(b"PUTSCRIPT " + _quote(name.encode("utf-8")) + b" " + self._literal(content) + CRLF)
        return self._response()[0] == b"OK"

    def checkscript(self, content):
        self._need_auth()
        if "VERSION" not in self._caps:
            raise NotImplementedError("server does not support CHECKSCRIPT")
        self._send(b"CHECKSCRIPT " + self._literal(content) + CRLF)
        return self._response()[0] == b"OK"

    def deletescript(self, name):
        self._need_auth()
        return self._cmd(b"DELETESCRIPT", name.encode("utf-8"))[0] == b"OK"

    def setactive(self, scriptname):
        self._need_auth()
        return self._cmd(b"SETACTIVE", scriptname.encode("utf-8"))[0] == b"OK"

    def renamescript(self, oldname, newname):
        self._need_auth()
        oldname.encode("utf-8"), newname.encode("utf-8")      # a name that cannot be sent is refused before the first command
        if "VERSION" in self._caps:
            return self._cmd(b"RENAMESCRIPT", oldname.encode("utf-8"), newname.encode("utf-8"))[0] == b"OK"
        listing = self.listscripts()
        if listing is None:
            return False
        active, others = listing
        names = set(others) | ({active} if active is not None else set())
        if oldname not in names or newname in names:
            return False
        body = self.getscript(oldname)
        if body is None:
            return False
        if not self.putscript(newname, body):
            return False
        if active == oldname and not self.setactive(newname):
            return False
        if not self.deletescript(oldname):
            return False
        return True


def _refusing(meth):
    def wrapped(self, *a, **k):
        try:
            return meth(self, *a, **k)
        except (UnicodeEncodeError, OverflowError) as e:
            raise Error("cannot encode argument: %s" % e)
        except ValueError as e:
            if "integer string conversion" in str(e) or "encode" in str(e):
                raise Error("cannot encode argument: %s" % e)
            raise
    wrapped.__name__ = meth.__name__
    return wrapped


for _n in ("havespace", "getscript", "putscript", "checkscript", "deletescript", "setactive", "renamescript"):
    setattr(RefClient, _n, _refusing(getattr(RefClient, _n)))
