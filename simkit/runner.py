"""Batch runner: fans jobs over forked workers, merges results in job order,
attributes / minimises / replays failures, proves determinism on a sample,
writes evidence."""

import faulthandler
import hashlib
import importlib
import json
import multiprocessing
import os
import signal
import subprocess
import sys
import time
from concurrent.futures import ProcessPoolExecutor, wait, FIRST_COMPLETED

from . import findings as findings_mod
from .chooser import tape_nonzero
from .core import Failure, HarnessError, RunResult, run_scenario, jsonable, unjson, merge_counts
from .net import SeamGap, SimHang
from .shrink import shrink

VERIF = os.path.dirname(os.path.dirname(os.path.abspath(__file__)))
REPO = os.environ.get("VERIF_REPO", "/repo")
PY = sys.executable
REPLAY_DIR = os.environ.get("VERIF_REPLAY_DIR") or os.path.join(VERIF, "replays")
EVIDENCE_DIR = os.environ.get("VERIF_EVIDENCE_DIR") or os.path.join(VERIF, "evidence")


def base_config():
    c = {}
    if os.environ.get("VERIF_CLIENT"):
        c["client"] = os.environ["VERIF_CLIENT"]
    return c


def scenario(prop):
    return importlib.import_module("scenarios." + prop.lower())


def repo_rev():
    try:
        out = subprocess.run(["git", "-C", REPO, "rev-parse", "--short", "HEAD"], capture_output=True, text=True, timeout=20)
        rev = out.stdout.strip()
        st = subprocess.run(["git", "-C", REPO, "status", "--porcelain", "--untracked-files=no"],
                            capture_output=True, text=True, timeout=20)
        if st.stdout.strip():
            rev += "+dirty"
        return rev
    except Exception:
        return "unknown"


# ---------------------------------------------------------------------------
# aggregation inside a worker
# ---------------------------------------------------------------------------

class Agg:
    """Mergeable result of one job."""

    def __init__(self):
        self.evals = 0
        self.counts = {}
        self.sigs = set()
        self.sim_time = 0.0
        self.h = hashlib.sha256()
        self.failures = []      # dicts: config, seed, tape, failure(json), zero
        self.known = {}         # finding id -> count
        self.samples = []

    def digest(self):
        return self.h.hexdigest()

    def pack(self):
        return {"evals": self.evals, "counts": self.counts, "sigs": sorted(self.sigs), "sim_time": self.sim_time,
                "digest": self.digest(), "failures": self.failures, "known": self.known, "samples": self.samples}


def public_config(config):
    return {k: v for k, v in config.items() if not k.startswith("_")}


def judge(scn, agg, config, seed, res, ctx, sample=False):
    """Fold one RunResult into agg; on failure do known-finding attribution.
    Returns True if the job should stop (an unexcused failure was recorded)."""
    agg.evals += res.evals
    merge_counts(agg.counts, res.counts)
    agg.sigs |= res.sigs
    agg.sim_time += res.sim_time
    agg.h.update((res.digest or "").encode())
    if sample and res.trace is not None and len(agg.samples) < 2:
        agg.samples.append(res.trace[:60])
    if res.failure is None:
        return False
    fl = ctx.get("findings") or []
    failure = res.failure
    tape = res.tape
    pconf = public_config(config)
    zero_used = ()
    for _ in range(4):
        def rerun(zero, _tape=tape):
            r = run_scenario(scn, pconf, seed=seed, tape=_tape, zero=zero)
            rerun.last = r
            return r.failure
        ids, residual = findings_mod.attribute(rerun, failure, fl)
        if ids:
            for i in ids:
                agg.known[i] = agg.known.get(i, 0) + 1
            return False
        failure, zero_used = residual
        if not zero_used:
            break
        # still failing with the known triggers off: judge that failure afresh
        tape = rerun.last.tape
        if not any(failure.clause in f.get("clauses", []) for f in fl):
            break
    agg.failures.append({"config": jsonable(pconf), "seed": seed, "tape": tape, "failure": failure.to_json(),
                         "zero": [list(z) for z in zero_used]})
    return True


# ---------------------------------------------------------------------------
# worker entry
# ---------------------------------------------------------------------------

_CTX = {}


def _init_worker(prop, ctx):
    _CTX["scn"] = scenario(prop)
    _CTX["ctx"] = ctx
    faulthandler.enable()


def _alarm(signum, frame):
    raise SimHang("per-run watchdog: CPU-bound hang")


def _work(job):
    scn = _CTX["scn"]
    ctx = _CTX["ctx"]
    faulthandler.dump_traceback_later(ctx.get("job_timeout", 600), exit=True)
    try:
        agg = scn.run_job(job, ctx)
        return agg.pack()
    finally:
        faulthandler.cancel_dump_traceback_later()


def run_jobs_inline(prop, jobs, ctx):
    _init_worker(prop, ctx)
    return [_work(j) for j in jobs]


# ---------------------------------------------------------------------------
# the check
# ---------------------------------------------------------------------------

def run_check(prop, tier, seed, workers=None, budget_s=None, scale=None, verbose=True):
    t0 = time.time()
    print("VERIF_SEED=%d property=%s tier=%s" % (seed, prop, tier), flush=True)
    scn = scenario(prop)
    from .world import check_no_unsimulated_imports
    bad = check_no_unsimulated_imports()
    if bad:
        print("HARNESS: code under test imports unsimulated modules: %s" % bad)
        return 2
    workers = workers or int(os.environ.get("VERIF_JOBS", "16"))
    if scale is None:
        scale = float(os.environ.get("VERIF_SCALE", "1"))
    if budget_s is None:
        budget_s = float(os.environ.get("VERIF_BUDGET_S", getattr(scn, "BUDGET", {}).get(tier, 120 if tier == "quick" else 900)))
    fl = findings_mod.load(prop)
    ctx = {"seed": seed, "tier": tier, "config": base_config(), "findings": fl}
    jobs = scn.jobs(tier, seed, scale)
    results = {}
    budget_stop = False
    failed_at = None
    try:
        mp = multiprocessing.get_context("fork")
        with ProcessPoolExecutor(max_workers=workers, mp_context=mp, initializer=_init_worker,
                                 initargs=(prop, ctx)) as ex:
            pending = {}
            nxt = 0
            while nxt < len(jobs) or pending:
                while nxt < len(jobs) and len(pending) < workers * 3:
                    if failed_at is not None:
                        nxt = len(jobs)
                        break
                    if time.time() - t0 > budget_s:
                        budget_stop = True
                        nxt = len(jobs)
                        break
                    fut = ex.submit(_work, jobs[nxt])
                    pending[fut] = nxt
                    nxt += 1
                if not pending:
                    break
                done, _ = wait(list(pending), return_when=FIRST_COMPLETED, timeout=900)
                if not done:
                    raise HarnessError("no worker finished within 900 s")
                for fut in done:
                    idx = pending.pop(fut)
                    results[idx] = fut.result()
                    if results[idx]["failures"] and (failed_at is None or idx < failed_at):
                        failed_at = idx
    except SeamGap as e:
        print("HARNESS: seam gap: %s" % e)
        return 2
    except Exception as e:
        if type(e).__name__ == "BrokenProcessPool":
            print("HARNESS: a worker died: %s" % e)
            return 2
        import traceback
        traceback.print_exc()
        cause = getattr(e, "__cause__", None)
        if cause is not None:
            print(str(cause))
        print("HARNESS: %s: %s" % (type(e).__name__, e))
        return 2

    # merge in job order (contiguous prefix semantics are not needed: counts only)
    evals = 0
    counts = {}
    sigs = set()
    sim_time = 0.0
    known = {}
    samples = []
    failures = []
    for idx in sorted(results):
        r = results[idx]
        evals += r["evals"]
        merge_counts(counts, r["counts"])
        sigs.update(r["sigs"])
        sim_time += r["sim_time"]
        merge_counts(known, r["known"])
        if len(samples) < 3:
            samples.extend(r["samples"][: 3 - len(samples)])
        for f in r["failures"]:
            failures.append((idx, f))
    wall_run = time.time() - t0

    for fid, n in sorted(known.items()):
        what = next((f.get("what", "") for f in fl if f["id"] == fid), "")
        print("KNOWN-FINDING: property=%s %s [%s, met in %d runs]" % (prop, what, fid, n))

    # determinism sample
    det = {"jobs": 0, "mismatches": 0}
    if not failures and os.environ.get("VERIF_NO_DETERMINISM") != "1":
        det = determinism_sample(prop, tier, seed, scale, jobs, results, 16 if tier == "quick" else 32)
        if det["mismatches"]:
            print("HARNESS: determinism self-test failed: %r" % det)
            write_evidence(scn, prop, tier, seed, evals, sigs, counts, sim_time, samples, known, det,
                           budget_stop, time.time() - t0, wall_run, 0, len(results), len(jobs), workers)
            return 2

    violations = 0
    rc = 0
    if failures:
        violations = len(failures)
        rc = None
        # prefer a failing run that reproduces on its own; fall back to re-executing the whole job (process history)
        for idx, f in failures[:8]:
            rc = report_failure(scn, prop, f, seed)
            if rc is not None:
                break
        if rc is None:
            idx, f = failures[0]
            rc = report_job_failure(scn, prop, jobs[idx], ctx, f, seed)
        if rc is None:
            print("HARNESS: %d failing runs were seen but none reproduces, neither alone nor as the sequence of runs of its job" % len(failures))
            rc = 2
    write_evidence(scn, prop, tier, seed, evals, sigs, counts, sim_time, samples, known, det,
                   budget_stop, time.time() - t0, wall_run, violations if rc == 1 else 0, len(results), len(jobs), workers)
    if rc == 0:
        print("PASS property=%s tier=%s runs=%d distinct=%d wall=%.1fs%s" % (
            prop, tier, evals, len(sigs), time.time() - t0, " (budget stop)" if budget_stop else ""))
    return rc


def determinism_sample(prop, tier, seed, scale, jobs, results, n):
    idxs = sorted(results)
    if not idxs:
        return {"jobs": 0, "mismatches": 0}
    step = max(1, len(idxs) // n)
    cand = idxs[::step][:n]
    # bound the cost: the fresh interpreter re-executes the picked jobs sequentially
    pick, cost = [], 0
    for i in cand:
        if len(pick) >= 4 and cost + results[i]["evals"] > 4000:
            continue
        pick.append(i)
        cost += results[i]["evals"]
    env = dict(os.environ)
    env["PYTHONHASHSEED"] = str(1 + (seed % 1000))
    env["VERIF_SCALE"] = repr(scale)
    cmd = [PY, os.path.join(VERIF, "bin", "vcheck"), "digest", prop, "--tier", tier, "--seed", str(seed),
           "--jobs", ",".join(str(i) for i in pick)]
    try:
        out = subprocess.run(cmd, capture_output=True, text=True, env=env, timeout=900)
        got = json.loads(out.stdout.strip().splitlines()[-1])
    except Exception as e:
        return {"jobs": len(pick), "mismatches": len(pick), "error": "%s: %s" % (type(e).__name__, e)}
    mism = [i for i in pick if got.get(str(i)) != results[i]["digest"]]
    return {"jobs": len(pick), "runs": cost, "mismatches": len(mism), "mismatch_jobs": mism[:5],
            "fresh_interpreter_hashseed": env["PYTHONHASHSEED"]}


def in_fork(fn):
    """Run fn() in a forked child of this process and return its picklable
    result.  The reporting process itself never executes a scenario, so every
    re-execution (minimisation candidates included) starts from the same
    process state: code under test that keeps process-global state (a cache, a
    class attribute) cannot make one candidate depend on the previous one."""
    import pickle
    r, w = os.pipe()
    pid = os.fork()
    if pid == 0:
        code = 0
        try:
            os.close(r)
            try:
                data = pickle.dumps(("ok", fn()), protocol=4)
            except BaseException as e:  # noqa
                import traceback
                data = pickle.dumps(("err", "%s: %s\n%s" % (type(e).__name__, e, traceback.format_exc())), protocol=4)
            with os.fdopen(w, "wb") as fp:
                fp.write(data)
        except BaseException:
            code = 1
        finally:
            os._exit(code)
    os.close(w)
    with os.fdopen(r, "rb") as fp:
        data = fp.read()
    os.waitpid(pid, 0)
    if not data:
        raise HarnessError("forked re-execution died without a result")
    st, val = pickle.loads(data)
    if st != "ok":
        raise HarnessError("forked re-execution failed: %s" % val)
    return val


def _exec_isolated(scn, config, seed, tape, zero, trace=False):
    def go():
        r = run_scenario(scn, config, seed=seed, tape=tape, zero=zero, trace=trace)
        fl = None if r.failure is None else (r.failure.clause, r.failure.detail, jsonable(r.failure.data))
        return fl, r.tape, r.trace, r.digest
    return in_fork(go)


def report_failure(scn, prop, f, batch_seed, job=None, ctx=None):
    """Minimise, write the replay file, replay it in a fresh interpreter.
    Returns 1 (violation reported), 2 (harness error) or None (this failure
    does not reproduce in isolation: the caller may try another one)."""
    config = unjson(f["config"])
    seed = f["seed"]
    zero = [tuple(z) for z in f.get("zero", [])]
    clause = f["failure"]["clause"]

    def test(tape):
        fl, eff, _, _ = _exec_isolated(scn, config, seed, tape, zero)
        if fl is not None and fl[0] == clause:
            return eff
        return None

    eff = test(f["tape"])
    if eff is None:
        return None
    budget = getattr(scn, "SHRINK", {"runs": 2000, "seconds": 60})
    best, used = shrink(test, eff, budget["runs"], budget["seconds"])
    fl, _, trace, digest = _exec_isolated(scn, config, seed, best, zero, trace=True)
    if fl is None or fl[0] != clause:
        best = eff
        fl, _, trace, digest = _exec_isolated(scn, config, seed, best, zero, trace=True)
    path = os.path.join(REPLAY_DIR, "%s-%d.json" % (prop, seed % 10**9))
    os.makedirs(os.path.dirname(path), exist_ok=True)
    doc = {
        "property": prop,
        "clause": fl[0],
        "detail": fl[1],
        "data": fl[2],
        "scenario": scn.__name__,
        "config": jsonable(config),
        "seed": seed,
        "batch_seed": batch_seed,
        "zero": [list(z) for z in zero],
        "tape": best,
        "triggers": ["%s:%s:%s=%d" % (fam, s, label, v) for (fam, s, i, label, v) in tape_nonzero(best)],
        "trace": trace,
        "digest": digest,
        "shrink_runs": used,
        "repo_rev": repo_rev(),
        "python": "%d.%d.%d" % sys.version_info[:3],
    }
    with open(path, "w") as fp:
        json.dump(doc, fp, indent=1, ensure_ascii=True)
    return _confirm_and_print(prop, path, doc, used)


def _confirm_and_print(prop, path, doc, used):
    # replay in a fresh interpreter
    env = dict(os.environ)
    env["PYTHONHASHSEED"] = "4242"
    out = subprocess.run([PY, os.path.join(VERIF, "bin", "vcheck"), "replay", path], capture_output=True,
                         text=True, env=env, timeout=1800)
    ok = out.returncode == 1 and ("REPLAY-REPRODUCED property=%s clause=%s" % (prop, doc["clause"])) in out.stdout \
        and ("digest=%s" % doc["digest"]) in out.stdout
    if not ok:
        print("HARNESS: replay of %s in a fresh interpreter did not reproduce (rc=%d)\n%s\n%s" % (
            path, out.returncode, out.stdout[-2000:], out.stderr[-2000:]))
        return 2
    print("violation: %s" % (doc["detail"] if len(doc["detail"]) < 1500 else doc["detail"][:1500] + " ...[see replay file]"))
    if doc.get("job") is not None:
        print("  the failing run only fails after the runs that preceded it in the same process: the replay file re-executes that "
              "whole sequence (job %r)" % (doc["job"],))
    else:
        print("  minimised to %d non-zero choices in %d re-executions; triggers: %s" % (
            len(doc["triggers"]), used, ", ".join(doc["triggers"][:12])))
    print("VIOLATION property=%s replay=%s" % (prop, path), flush=True)
    return 1


def report_job_failure(scn, prop, job, ctx, f, batch_seed):
    """Last resort: the failure depends on what earlier runs of the same job left behind in the process (the code under
    test keeps process-global state).  The replay unit is then the job: its runs, in order, in one fresh process."""
    def go():
        _init_worker(prop, ctx)
        return _work(job)
    res = in_fork(go)
    if not res["failures"]:
        return None
    g = res["failures"][0]
    path = os.path.join(REPLAY_DIR, "%s-job-%d.json" % (prop, g["seed"] % 10**9))
    os.makedirs(os.path.dirname(path), exist_ok=True)
    doc = {
        "property": prop, "clause": g["failure"]["clause"], "detail": g["failure"]["detail"], "data": g["failure"]["data"],
        "scenario": scn.__name__, "job": job, "ctx": {"seed": ctx["seed"], "tier": ctx["tier"], "config": jsonable(ctx["config"])},
        "seed": g["seed"], "batch_seed": batch_seed, "digest": res["digest"],
        "trace": ["process history: the runs of job %r, in order, in one fresh process; the failing run is seed %d" % (job, g["seed"])],
        "triggers": [], "repo_rev": repo_rev(), "python": "%d.%d.%d" % sys.version_info[:3],
    }
    with open(path, "w") as fp:
        json.dump(doc, fp, indent=1, ensure_ascii=True)
    return _confirm_and_print(prop, path, doc, 0)


def replay_file(path, show=True):
    with open(path) as fp:
        doc = json.load(fp)
    scn = importlib.import_module(doc["scenario"])
    if doc.get("job") is not None:
        ctx = {"seed": doc["ctx"]["seed"], "tier": doc["ctx"]["tier"], "config": unjson(doc["ctx"]["config"]),
               "findings": findings_mod.load(doc["property"])}
        _init_worker(doc["property"], ctx)
        res = _work(doc["job"])
        if not res["failures"]:
            print("REPLAY-CLEAN property=%s (job %r ran clean) digest=%s" % (doc["property"], doc["job"], res["digest"]))
            return 0
        g = res["failures"][0]
        print("violation: %s" % g["failure"]["detail"][:1500])
        print("REPLAY-REPRODUCED property=%s clause=%s digest=%s" % (doc["property"], g["failure"]["clause"], res["digest"]))
        if g["failure"]["clause"] == doc["clause"]:
            print("VIOLATION property=%s replay=%s" % (doc["property"], path))
        return 1
    config = unjson(doc["config"])
    zero = [tuple(z) for z in doc.get("zero", [])]
    r = run_scenario(scn, config, seed=doc["seed"], tape=doc["tape"], zero=zero, trace=True)
    if show and r.trace:
        for line in r.trace:
            print(line)
    if r.failure is None:
        print("REPLAY-CLEAN property=%s (recorded clause %s did not occur) digest=%s" % (doc["property"], doc["clause"], r.digest))
        return 0
    print("violation: %s" % r.failure.detail)
    print("REPLAY-REPRODUCED property=%s clause=%s digest=%s" % (doc["property"], r.failure.clause, r.digest))
    if r.failure.clause == doc["clause"]:
        print("VIOLATION property=%s replay=%s" % (doc["property"], path))
    return 1


def write_evidence(scn, prop, tier, seed, evals, sigs, counts, sim_time, samples, known, det, budget_stop,
                   wall, wall_run, violations, jobs_done, jobs_total, workers):
    faults = {k[6:]: v for k, v in counts.items() if k.startswith("fault:")}
    probes = {k[6:]: v for k, v in counts.items() if k.startswith("probe:")}
    policies = {k[7:]: v for k, v in counts.items() if k.startswith("policy:")}
    other = {k: v for k, v in counts.items() if not k.startswith(("fault:", "probe:", "policy:"))}
    cov = {
        "evaluations": int(evals),
        "distinct_nontrivial": len(sigs),
        "rule": getattr(scn, "RULE", ""),
        "samples": samples if samples else [getattr(scn, "SAMPLE_NOTE", "no sample captured")],
        "exhaustive": bool(getattr(scn, "EXHAUSTIVE", {}).get(tier, False)) and not budget_stop,
        "runs_per_hour": int(evals / max(wall_run, 1e-6) * 3600),
        "sim_time_s": round(sim_time, 3),
        "fault_counts": faults,
        "probes": probes,
        "policy_counts": policies,
        "other_counts": other,
        "determinism": det,
        "known_findings_met": known,
        "budget_stop": budget_stop,
        "jobs_done": jobs_done,
        "jobs_total": jobs_total,
        "workers": workers,
        "components": getattr(scn, "COMPONENTS", {}),
        "signature_examples": sorted(sigs)[:25],
        "repo_rev": repo_rev(),
    }
    extra = getattr(scn, "evidence_extra", None)
    if extra:
        cov.update(extra(tier, counts, sigs))
    doc = {
        "property_id": prop,
        "tier": tier,
        "seed": int(seed),
        "level": getattr(scn, "LEVEL", "exploration"),
        "coverage": cov,
        "assumptions": getattr(scn, "ASSUMPTIONS", []),
        "wall_s": round(wall, 2),
        "violations": int(violations),
    }
    d = EVIDENCE_DIR
    os.makedirs(d, exist_ok=True)
    with open(os.path.join(d, "%s.json" % prop), "w") as fp:
        json.dump(doc, fp, indent=1, ensure_ascii=True)


def job_digests(prop, tier, seed, scale, idxs):
    scn = scenario(prop)
    fl = findings_mod.load(prop)
    ctx = {"seed": seed, "tier": tier, "config": base_config(), "findings": fl}
    jobs = scn.jobs(tier, seed, scale)
    out = {}
    nw = int(os.environ.get("VERIF_DIGEST_JOBS", "8"))
    if nw <= 1 or len(idxs) <= 1:
        _init_worker(prop, ctx)
        for i in idxs:
            out[str(i)] = _work(jobs[i])["digest"]
        return out
    mp = multiprocessing.get_context("fork")
    with ProcessPoolExecutor(max_workers=min(nw, len(idxs)), mp_context=mp, initializer=_init_worker,
                             initargs=(prop, ctx)) as ex:
        futs = {i: ex.submit(_work, jobs[i]) for i in idxs}
        for i in idxs:
            out[str(i)] = futs[i].result()["digest"]
    return out
