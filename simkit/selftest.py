"""Self-tests of the machinery: sensitivity (mutants), null hypothesis
(reference client), determinism."""

import json
import os
import shutil
import subprocess
import sys
import tempfile
import time

VERIF = os.path.dirname(os.path.dirname(os.path.abspath(__file__)))
REPO = "/repo"
PY = sys.executable
VCHECK = os.path.join(VERIF, "bin", "vcheck")


def _scratch_copy():
    d = tempfile.mkdtemp(prefix="sievelib-mut-")
    shutil.copytree(os.path.join(REPO, "sievelib"), os.path.join(d, "sievelib"))
    for f in ("pyproject.toml", "README.rst"):
        if os.path.exists(os.path.join(REPO, f)):
            shutil.copy(os.path.join(REPO, f), d)
    return d


def _suite_passes(d):
    out = subprocess.run([PY, "-m", "pytest", "-q", "-p", "no:cacheprovider", "-x", "sievelib/tests"], cwd=d,
                         capture_output=True, text=True, timeout=600,
                         env=dict(os.environ, PYTHONDONTWRITEBYTECODE="1", PYTHONPATH=d))
    tail = out.stdout.strip().splitlines()[-1] if out.stdout.strip() else ""
    return out.returncode == 0, tail


def run_mutants(names=None, scale=None, tier="quick", check_suite=True):
    from selftests import mutants as M
    rows = []
    for m in M.MUTANTS:
        if names and m["name"] not in names and m["prop"] not in names:
            continue
        d = _scratch_copy()
        try:
            path = os.path.join(d, m["file"])
            src = open(path).read()
            if src.count(m["old"]) != 1:
                rows.append((m["name"], m["prop"], "STALE (old text found %d times)" % src.count(m["old"]), ""))
                continue
            open(path, "w").write(src.replace(m["old"], m["new"]))
            suite = ("skipped", "")
            if check_suite:
                ok, tail = _suite_passes(d)
                suite = ("suite-pass" if ok else "SUITE-FAILS", tail)
            env = dict(os.environ, VERIF_REPO=d, VERIF_NO_DETERMINISM="1", PYTHONDONTWRITEBYTECODE="1")
            env["VERIF_REPLAY_DIR"] = os.path.join(d, "replays")
            t0 = time.time()
            props = m["prop"].split(",")
            verdicts = []
            for p in props:
                cmd = [PY, VCHECK, "run", p, "--tier", tier]
                if scale or m.get("scale"):
                    cmd += ["--scale", str(scale or m.get("scale"))]
                out = subprocess.run(cmd, capture_output=True, text=True, env=env, timeout=3600)
                line = [l for l in out.stdout.splitlines() if l.startswith(("VIOLATION", "PASS", "HARNESS", "violation:"))]
                verdicts.append("%s rc=%d %s" % (p, out.returncode, " | ".join(line)[:300]))
            rows.append((m["name"], m["prop"], suite[0], "; ".join(verdicts) + " (%.0fs)" % (time.time() - t0)))
        finally:
            shutil.rmtree(d, ignore_errors=True)
    return rows


def main(what, rest):
    if what == "mutants":
        scale = None
        names = []
        tier = "quick"
        for r in rest:
            if r.startswith("scale="):
                scale = float(r[6:])
            elif r.startswith("tier="):
                tier = r[5:]
            else:
                names.append(r)
        rows = run_mutants(names or None, scale, tier)
        bad = 0
        for name, prop, suite, verdict in rows:
            caught = "rc=1" in verdict
            if not caught or suite != "suite-pass":
                bad += 1
            print("%-34s %-8s %-12s %s %s" % (name, prop, suite, "CAUGHT" if caught else "MISSED", verdict))
        print("%d mutants, %d not (cleanly) caught" % (len(rows), bad))
        return 0 if bad == 0 else 1
    if what == "null":
        from simkit import runner
        rc = 0
        props = rest or ["C05", "C08", "C09", "C10", "C14", "C15", "C16", "C17"]
        for p in props:
            env = dict(os.environ, VERIF_CLIENT="ref", VERIF_NO_DETERMINISM="1", VERIF_EVIDENCE_DIR="/tmp/vnull-evidence")
            out = subprocess.run([PY, VCHECK, "run", p, "--scale", os.environ.get("VERIF_SCALE", "0.3")],
                                 capture_output=True, text=True, env=env, timeout=3600)
            last = [l for l in out.stdout.splitlines() if l.startswith(("VIOLATION", "PASS", "HARNESS", "violation:"))]
            print("null %s rc=%d %s" % (p, out.returncode, " | ".join(last)))
            if out.returncode != 0:
                rc = 1
        return rc
    if what == "benign":
        return benign_selftest(rest)
    if what == "findings":
        return findings_selftest()
    if what == "determinism":
        props = rest or ["C05"]
        rc = 0
        for p in props:
            for workers in ("1", "16"):
                digs = []
                for hs in ("0", "777"):
                    env = dict(os.environ, PYTHONHASHSEED=hs, VERIF_JOBS=workers, VERIF_DIGEST_JOBS=workers)
                    out = subprocess.run([PY, VCHECK, "digest", p, "--tier", "quick", "--seed", "5", "--jobs",
                                          ",".join(str(i) for i in range(0, 40))],
                                         capture_output=True, text=True, env=env, timeout=3600)
                    digs.append(out.stdout.strip().splitlines()[-1] if out.stdout.strip() else out.stderr[-300:])
                same = digs[0] == digs[1]
                print("determinism %s workers=%s: %s" % (p, workers, "same" if same else "DIFFERENT"))
                if not same:
                    rc = 1
        return rc
    return 2


def findings_selftest():
    """Exercise the known-finding path on C16: with a defect that drops the
    authorisation id from PLAIN and an *open* finding whose trigger is "an
    authorisation id was given", the check must print KNOWN-FINDING and exit 0;
    with a second, unlisted defect on top (LOGIN sends the user name as the
    password) it must still exit 1 with a VIOLATION."""
    finding = {"findings": [{"id": "KF-selftest", "status": "open", "property": "C16", "clauses": ["C16.creds"],
                             "triggers": [["wl", "has_authz", 1]],
                             "what": "selftest: PLAIN does not carry the authorisation id"}]}
    old1 = 'params = base64.b64encode(b"\\0".join([authz_id, login, password]))'
    new1 = 'params = base64.b64encode(b"\\0".join([b"", login, password]))'
    old2 = """'"%s"' % base64.b64encode(password).decode("ascii")"""
    new2 = """'"%s"' % base64.b64encode(login).decode("ascii")"""
    rc_all = 0
    for label, extra, want in (("listed defect only", False, 0), ("listed + unlisted defect", True, 1)):
        d = _scratch_copy()
        try:
            path = os.path.join(d, "sievelib/managesieve.py")
            src = open(path).read()
            assert src.count(old1) == 1 and src.count(old2) == 1, (src.count(old1), src.count(old2))
            src = src.replace(old1, new1)
            if extra:
                src = src.replace(old2, new2)
            open(path, "w").write(src)
            fpath = os.path.join(d, "kf.json")
            json.dump(finding, open(fpath, "w"))
            env = dict(os.environ, VERIF_REPO=d, VERIF_NO_DETERMINISM="1", VERIF_FINDINGS=fpath,
                       VERIF_REPLAY_DIR=os.path.join(d, "replays"), VERIF_EVIDENCE_DIR=os.path.join(d, "ev"))
            out = subprocess.run([PY, VCHECK, "run", "C16", "--scale", "0.3"], capture_output=True, text=True, env=env, timeout=1200)
            lines = [l for l in out.stdout.splitlines() if l.startswith(("KNOWN-FINDING", "VIOLATION", "PASS", "HARNESS", "violation:"))]
            ok = out.returncode == want and any(l.startswith("KNOWN-FINDING") for l in lines)
            print("findings selftest [%s]: rc=%d (want %d) %s\n   %s" % (label, out.returncode, want, "OK" if ok else "WRONG", "\n   ".join(l[:220] for l in lines)))
            if not ok:
                rc_all = 1
        finally:
            shutil.rmtree(d, ignore_errors=True)
    return rc_all


def benign_selftest(names):
    """Negative controls: no check may raise an alarm on a change under which
    the property still holds."""
    from selftests import benign as B
    bad = 0
    for m in B.BENIGN:
        if names and m["name"] not in names:
            continue
        d = _scratch_copy()
        try:
            path = os.path.join(d, m["file"])
            src = open(path).read()
            if src.count(m["old"]) != 1:
                print("%-44s STALE (old text found %d times)" % (m["name"], src.count(m["old"])))
                bad += 1
                continue
            open(path, "w").write(src.replace(m["old"], m["new"]))
            ok, tail = _suite_passes(d)
            env = dict(os.environ, VERIF_REPO=d, VERIF_NO_DETERMINISM="1", PYTHONDONTWRITEBYTECODE="1",
                       VERIF_REPLAY_DIR=os.path.join(d, "replays"), VERIF_EVIDENCE_DIR=os.path.join(d, "ev"))
            verdicts = []
            for p in m["props"]:
                out = subprocess.run([PY, VCHECK, "run", p, "--scale", "0.5"], capture_output=True, text=True, env=env, timeout=3600)
                if out.returncode != 0:
                    bad += 1
                    line = [l for l in out.stdout.splitlines() if l.startswith(("violation:", "HARNESS"))]
                    verdicts.append("%s ALARM rc=%d %s" % (p, out.returncode, " | ".join(line)[:400]))
                else:
                    verdicts.append("%s ok" % p)
            print("%-44s suite=%s  %s" % (m["name"], "pass" if ok else "fails(%s)" % tail[:30], "; ".join(verdicts)))
        finally:
            shutil.rmtree(d, ignore_errors=True)
    print("benign changes with an alarm: %d" % bad)
    return 0 if bad == 0 else 1
