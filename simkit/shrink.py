"""Deterministic, budgeted minimiser over the keyed tape."""

import time

from .chooser import tape_copy, tape_nonzero, tape_size


def _groups(tape):
    """Top-level scope groups (op#3, op#3.c0, ... -> 'op#3'), in order of
    appearance of their names sorted naturally, latest first."""
    names = set()
    for f in tape:
        for s in tape[f]:
            names.add(s.split(".")[0])

    def keyf(n):
        # natural sort: split trailing integer
        base = n.rstrip("0123456789")
        num = n[len(base):]
        return (base, int(num) if num else -1)

    return sorted(names, key=keyf, reverse=True)


def shrink(test, tape, max_runs=2000, max_seconds=60.0):
    """``test(tape) -> effective_tape | None`` (None = the target failure did
    not occur).  Returns (minimal effective tape, runs used)."""
    t0 = time.time()
    runs = [0]
    best = tape_copy(tape)

    def attempt(cand):
        if runs[0] >= max_runs or time.time() - t0 > max_seconds:
            return None
        runs[0] += 1
        return test(cand)

    changed = True
    while changed and runs[0] < max_runs and time.time() - t0 <= max_seconds:
        changed = False
        # 1. delete whole groups of scopes (an op with everything that belongs to it)
        for g in _groups(best):
            if g in ("run",):
                continue
            cand = {f: {s: l for s, l in sc.items() if s.split(".")[0] != g} for f, sc in best.items()}
            if tape_size(cand) >= tape_size(best):
                continue
            eff = attempt(cand)
            if eff is not None and tape_size(eff) < tape_size(best):
                best = tape_copy(eff)
                changed = True
        # 2. delete single (family, scope) entries
        for f in sorted(best):
            for s in sorted(best.get(f, {}), reverse=True):
                if f not in best or s not in best[f]:
                    continue
                if not any(e[2] for e in best[f][s]):
                    continue
                cand = tape_copy(best)
                del cand[f][s]
                eff = attempt(cand)
                if eff is not None and tape_size(eff) < tape_size(best):
                    best = tape_copy(eff)
                    changed = True
        # 3. zero single draws
        for (f, s, i, label, v) in reversed(tape_nonzero(best)):
            try:
                if best[f][s][i][2] == 0 or best[f][s][i][0] != label:
                    continue
            except (KeyError, IndexError):
                continue
            cand = tape_copy(best)
            cand[f][s][i][2] = 0
            eff = attempt(cand)
            if eff is not None and tape_size(eff) < tape_size(best):
                best = tape_copy(eff)
                changed = True
        # 4. lower values
        for (f, s, i, label, v) in reversed(tape_nonzero(best)):
            try:
                cur = best[f][s][i][2]
                if cur <= 1 or best[f][s][i][0] != label:
                    continue
            except (KeyError, IndexError):
                continue
            for nv in (1, cur // 2, cur - 1):
                if nv <= 0 or nv >= cur:
                    continue
                cand = tape_copy(best)
                cand[f][s][i][2] = nv
                eff = attempt(cand)
                if eff is not None and tape_size(eff) < tape_size(best):
                    best = tape_copy(eff)
                    changed = True
                    break
    return best, runs[0]
