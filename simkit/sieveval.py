"""Independent Sieve reader (RFC 5228 section 8): tokenizer, generic grammar,
and a frozen strict table for exactly the commands the filter factory can emit.
Shares no code with sievelib.parser / sievelib.commands.
"""


class SieveSyntaxError(Exception):
    pass


# ---------------------------------------------------------------------------
# tokens
# ---------------------------------------------------------------------------

_ID_START = set("abcdefghijklmnopqrstuvwxyzABCDEFGHIJKLMNOPQRSTUVWXYZ_")
_ID_CONT = _ID_START | set("0123456789")
_DIGITS = set("0123456789")


def tokenize(text):
    """text: str.  Returns a list of (kind, value, line) tuples.  kinds: id, tag,
    num, str (value = decoded content), '[', ']', '(', ')', '{', '}', ',', ';',
    comment (value = text after '#', without the line end)."""
    toks = []
    i = 0
    n = len(text)
    line = 1
    while i < n:
        c = text[i]
        if c == "\n":
            line += 1
            i += 1
            continue
        if c in " \t\r":
            i += 1
            continue
        if c == "#":
            j = text.find("\n", i)
            if j == -1:
                j = n
            val = text[i + 1:j]
            if val.endswith("\r"):
                val = val[:-1]
            toks.append(("comment", val, line))
            i = j
            continue
        if c == "/" and text[i:i + 2] == "/*":
            j = text.find("*/", i + 2)
            if j == -1:
                raise SieveSyntaxError("line %d: unterminated bracket comment" % line)
            line += text.count("\n", i, j)
            i = j + 2
            continue
        if c == '"':
            j = i + 1
            out = []
            while True:
                if j >= n:
                    raise SieveSyntaxError("line %d: unterminated string" % line)
                ch = text[j]
                if ch == "\\":
                    if j + 1 >= n:
                        raise SieveSyntaxError("line %d: unterminated string" % line)
                    out.append(text[j + 1])
                    j += 2
                    continue
                if ch == '"':
                    break
                out.append(ch)
                j += 1
            val = "".join(out)
            toks.append(("str", val, line))
            line += text.count("\n", i, j)
            i = j + 1
            continue
        if c in "[](){},;":
            toks.append((c, c, line))
            i += 1
            continue
        if c == ":":
            j = i + 1
            if j < n and text[j] in _ID_START:
                while j < n and text[j] in _ID_CONT:
                    j += 1
                toks.append(("tag", text[i:j].lower(), line))
                i = j
                continue
            raise SieveSyntaxError("line %d: stray ':'" % line)
        if c in _DIGITS:
            j = i
            while j < n and text[j] in _DIGITS:
                j += 1
            if j < n and text[j] in "KMGkmg":
                j += 1
            if j < n and text[j] in _ID_CONT:
                raise SieveSyntaxError("line %d: malformed number %r" % (line, text[i:j + 1]))
            toks.append(("num", text[i:j], line))
            i = j
            continue
        if c in _ID_START:
            j = i
            while j < n and text[j] in _ID_CONT:
                j += 1
            word = text[i:j]
            if word.lower() == "text" and text[j:j + 1] == ":":
                # multi-line string:  "text:" *(SP/HTAB) (hash-comment / CRLF) *(multiline-literal / multiline-dotstart) "." CRLF
                k = j + 1
                while k < n and text[k] in " \t":
                    k += 1
                if k < n and text[k] == "#":
                    k = text.find("\n", k)
                    if k == -1:
                        raise SieveSyntaxError("line %d: unterminated multi-line string" % line)
                elif text[k:k + 2] == "\r\n":
                    k += 1
                elif text[k:k + 1] != "\n":
                    raise SieveSyntaxError("line %d: garbage after text:" % line)
                k += 1
                lines = []
                while True:
                    if k >= n:
                        raise SieveSyntaxError("line %d: unterminated multi-line string" % line)
                    e = text.find("\n", k)
                    if e == -1:
                        ln = text[k:]
                        nk = n
                    else:
                        ln = text[k:e]
                        nk = e + 1
                    if ln.endswith("\r"):
                        ln = ln[:-1]
                    if ln == ".":
                        k = nk
                        break
                    if e == -1:
                        raise SieveSyntaxError("line %d: unterminated multi-line string" % line)
                    if ln.startswith(".."):
                        ln = ln[1:]
                    lines.append(ln)
                    k = nk
                val = "".join(l + "\r\n" for l in lines)
                toks.append(("str", val, line))
                line += text.count("\n", i, k)
                i = k
                continue
            toks.append(("id", word.lower(), line))
            i = j
            continue
        raise SieveSyntaxError("line %d: unexpected character %r" % (line, c))
    return toks


# ---------------------------------------------------------------------------
# generic grammar
# ---------------------------------------------------------------------------

class Node:
    __slots__ = ("name", "args", "tests", "block", "line", "comments")

    def __init__(self, name, line):
        self.name = name
        self.args = []      # ("tag", v) | ("num", v) | ("str", v) | ("list", [v...])
        self.tests = []     # Node
        self.block = None   # list[Node] | None
        self.line = line
        self.comments = []  # hash comments seen before this (top-level) command

    def tree(self):
        return (self.name, tuple((k, tuple(v) if isinstance(v, list) else v) for k, v in self.args),
                tuple(t.tree() for t in self.tests),
                None if self.block is None else tuple(c.tree() for c in self.block))

    def walk(self):
        yield self
        for t in self.tests:
            for x in t.walk():
                yield x
        for c in self.block or ():
            for x in c.walk():
                yield x


class _P:
    def __init__(self, toks):
        self.toks = [t for t in toks]
        self.i = 0
        self.pending_comments = []

    def peek(self):
        while self.i < len(self.toks) and self.toks[self.i][0] == "comment":
            self.pending_comments.append(self.toks[self.i][1])
            self.i += 1
        if self.i < len(self.toks):
            return self.toks[self.i]
        return ("eof", None, -1)

    def next(self):
        t = self.peek()
        self.i += 1
        return t

    def commands(self, top):
        out = []
        while True:
            t = self.peek()
            if t[0] == "id":
                out.append(self.command(top))
            elif t[0] == "}" and not top:
                return out
            elif t[0] == "eof" and top:
                return out
            else:
                raise SieveSyntaxError("line %s: unexpected %r where a command was expected" % (t[2], t[1]))

    def command(self, top):
        t = self.next()
        node = Node(t[1], t[2])
        if top:
            node.comments = self.pending_comments
            self.pending_comments = []
        self.arguments(node)
        t = self.peek()
        if t[0] == ";":
            self.next()
        elif t[0] == "{":
            self.next()
            node.block = self.commands(False)
            t = self.next()
            if t[0] != "}":
                raise SieveSyntaxError("line %s: '}' expected" % t[2])
        else:
            raise SieveSyntaxError("line %s: ';' or block expected after %s, found %r" % (t[2], node.name, t[1]))
        return node

    def arguments(self, node):
        while True:
            t = self.peek()
            if t[0] in ("tag", "num", "str"):
                self.next()
                node.args.append((t[0], t[1]))
            elif t[0] == "[":
                self.next()
                items = []
                while True:
                    s = self.next()
                    if s[0] != "str":
                        raise SieveSyntaxError("line %s: string expected in string list, found %r" % (s[2], s[1]))
                    items.append(s[1])
                    s = self.next()
                    if s[0] == "]":
                        break
                    if s[0] != ",":
                        raise SieveSyntaxError("line %s: ',' or ']' expected in string list, found %r" % (s[2], s[1]))
                node.args.append(("list", items))
            else:
                break
        t = self.peek()
        if t[0] == "id":
            node.tests.append(self.test())
        elif t[0] == "(":
            self.next()
            while True:
                node.tests.append(self.test())
                s = self.next()
                if s[0] == ")":
                    break
                if s[0] != ",":
                    raise SieveSyntaxError("line %s: ',' or ')' expected in test list, found %r" % (s[2], s[1]))

    def test(self):
        t = self.next()
        if t[0] != "id":
            raise SieveSyntaxError("line %s: test name expected, found %r" % (t[2], t[1]))
        node = Node(t[1], t[2])
        self.arguments(node)
        return node


def parse(text):
    """Generic-grammar parse.  Returns the list of top-level Nodes."""
    if isinstance(text, bytes):
        text = text.decode("utf-8")
    p = _P(tokenize(text))
    return p.commands(True)


def skeleton(text):
    """Token skeleton: every token except string contents and comment text."""
    if isinstance(text, bytes):
        text = text.decode("utf-8")
    out = []
    for k, v, _ in tokenize(text):
        if k == "str":
            out.append("S")
        elif k == "comment":
            out.append("#")
        else:
            out.append(v)
    return out


def strings_of(node):
    """All decoded string literals below a node, in order."""
    out = []
    for n in node.walk():
        for k, v in n.args:
            if k == "str":
                out.append(v)
            elif k == "list":
                out.extend(v)
    return out


# ---------------------------------------------------------------------------
# strict table for what the factory can emit
# ---------------------------------------------------------------------------

MATCH = {":is": None, ":contains": None, ":matches": None, ":regex": "regex", ":count": "relational", ":value": "relational"}
RELOPS = ("gt", "ge", "lt", "le", "eq", "ne")
ADDRPART = (":localpart", ":domain", ":all")

# positional kinds: "S" string, "L" string or list, "N" number
TESTS = {
    "true": {"pos": "", "ext": None},
    "false": {"pos": "", "ext": None},
    "header": {"pos": "LL", "ext": None, "match": True, "comparator": True},
    "address": {"pos": "LL", "ext": None, "match": True, "comparator": True, "addrpart": True},
    "envelope": {"pos": "LL", "ext": "envelope", "match": True, "comparator": True, "addrpart": True},
    "exists": {"pos": "L", "ext": None},
    "size": {"pos": "N", "ext": None, "tags": {":over": None, ":under": None}, "need_one_of": (":over", ":under")},
    "body": {"pos": "L", "ext": "body", "match": True, "comparator": True,
             "tags": {":raw": None, ":text": None, ":content": "L"}},
    "currentdate": {"pos": "SL", "ext": "date", "match": True, "comparator": True, "tags": {":zone": "S"}},
    "hasflag": {"pos": "L", "ext": "imap4flags", "match": True, "comparator": True, "optpos": "L"},
}
ACTIONS = {
    "keep": {"pos": "", "ext": None, "tags": {":flags": ("L", "imap4flags")}},
    "discard": {"pos": "", "ext": None},
    "stop": {"pos": "", "ext": None},
    "fileinto": {"pos": "S", "ext": "fileinto",
                 "tags": {":copy": (None, "copy"), ":create": (None, "mailbox"), ":flags": ("L", "imap4flags")}},
    "redirect": {"pos": "S", "ext": None, "tags": {":copy": (None, "copy")}},
    "reject": {"pos": "S", "ext": "reject"},
    "setflag": {"pos": "L", "ext": "imap4flags", "optpos": "S"},
    "addflag": {"pos": "L", "ext": "imap4flags", "optpos": "S"},
    "removeflag": {"pos": "L", "ext": "imap4flags", "optpos": "S"},
    "vacation": {"pos": "S", "ext": "vacation",
                 "tags": {":subject": ("S", None), ":days": ("N", None), ":seconds": ("N", "vacation-seconds"),
                          ":from": ("S", None), ":addresses": ("L", None), ":handle": ("S", None), ":mime": (None, None)}},
}


class Strict:
    """Result of strict validation."""

    def __init__(self):
        self.errors = []
        self.needed = set()      # extensions needed anywhere in the text
        self.required = []       # extensions named by the leading require(s)


def _kind_ok(kind, arg):
    k, v = arg
    if kind == "S":
        return k == "str"
    if kind == "L":
        return k in ("str", "list") and (k == "str" or len(v) > 0)
    if kind == "N":
        return k == "num"
    return False


def _check_args(node, spec, st, is_test):
    args = list(node.args)
    i = 0
    pos = []
    seen_tags = set()
    tags = dict(spec.get("tags") or {})
    while i < len(args):
        k, v = args[i]
        if k == "tag":
            if v in seen_tags:
                st.errors.append("line %d: %s: tag %s repeated" % (node.line, node.name, v))
            seen_tags.add(v)
            param = None
            ext = None
            if spec.get("match") and v in MATCH:
                ext = MATCH[v]
                if v in (":count", ":value"):
                    param = "R"
            elif spec.get("comparator") and v == ":comparator":
                param = "S"
            elif spec.get("addrpart") and v in ADDRPART:
                pass
            elif v in tags:
                t = tags[v]
                if isinstance(t, tuple):
                    param, ext = t
                else:
                    param = t
            else:
                st.errors.append("line %d: %s: unknown tag %s" % (node.line, node.name, v))
            if ext:
                st.needed.add(ext)
            if param is not None:
                if i + 1 >= len(args):
                    st.errors.append("line %d: %s: tag %s lacks its parameter" % (node.line, node.name, v))
                else:
                    nxt = args[i + 1]
                    if param == "R":
                        if nxt[0] != "str" or nxt[1].lower() not in RELOPS:
                            st.errors.append("line %d: %s: %s needs a relational operator, found %r" % (node.line, node.name, v, nxt[1]))
                    elif not _kind_ok(param, nxt):
                        st.errors.append("line %d: %s: parameter of %s has the wrong kind (%s): %r" % (node.line, node.name, v, param, nxt))
                    i += 1
            i += 1
            continue
        pos.append(args[i])
        i += 1
    want = spec["pos"]
    opt = spec.get("optpos")
    if opt and len(pos) == len(want) + 1:
        want = opt + want
    if len(pos) != len(want):
        st.errors.append("line %d: %s: %d positional argument(s), %d required" % (node.line, node.name, len(pos), len(want)))
    else:
        for kind, a in zip(want, pos):
            if not _kind_ok(kind, a):
                st.errors.append("line %d: %s: positional argument %r is not of kind %s" % (node.line, node.name, a, kind))
    need = spec.get("need_one_of")
    if need and not (seen_tags & set(need)):
        st.errors.append("line %d: %s: one of %r is required" % (node.line, node.name, need))
    if spec.get("ext"):
        st.needed.add(spec["ext"])


def _check_test(node, st):
    if node.block is not None:
        st.errors.append("line %d: test %s with a block" % (node.line, node.name))
    if node.name in ("anyof", "allof"):
        if node.args:
            st.errors.append("line %d: %s takes no arguments" % (node.line, node.name))
        if not node.tests:
            st.errors.append("line %d: %s without tests" % (node.line, node.name))
        for t in node.tests:
            _check_test(t, st)
        return
    if node.name == "not":
        if node.args or len(node.tests) != 1:
            st.errors.append("line %d: not needs exactly one test" % node.line)
        for t in node.tests:
            _check_test(t, st)
        return
    spec = TESTS.get(node.name)
    if spec is None:
        st.errors.append("line %d: unknown test %s" % (node.line, node.name))
        return
    if node.tests:
        st.errors.append("line %d: test %s followed by another test" % (node.line, node.name))
    _check_args(node, spec, st, True)


def _check_commands(cmds, st, top):
    prev = None
    for idx, c in enumerate(cmds):
        if c.name == "require":
            if not top or any(x.name != "require" for x in cmds[:idx]):
                st.errors.append("line %d: require after other commands" % c.line)
            if len(c.args) != 1 or c.args[0][0] not in ("str", "list") or c.tests or c.block is not None:
                st.errors.append("line %d: malformed require" % c.line)
            else:
                v = c.args[0][1]
                st.required.extend([v] if isinstance(v, str) else v)
        elif c.name in ("if", "elsif"):
            if c.name == "elsif" and (prev is None or prev.name not in ("if", "elsif")):
                st.errors.append("line %d: elsif without if" % c.line)
            if c.args or len(c.tests) != 1 or c.block is None:
                st.errors.append("line %d: %s needs exactly one test and a block" % (c.line, c.name))
            for t in c.tests:
                _check_test(t, st)
            _check_commands(c.block or [], st, False)
        elif c.name == "else":
            if prev is None or prev.name not in ("if", "elsif"):
                st.errors.append("line %d: else without if" % c.line)
            if c.args or c.tests or c.block is None:
                st.errors.append("line %d: malformed else" % c.line)
            _check_commands(c.block or [], st, False)
        else:
            spec = ACTIONS.get(c.name)
            if spec is None:
                st.errors.append("line %d: unknown command %s" % (c.line, c.name))
            else:
                if c.tests or c.block is not None:
                    st.errors.append("line %d: action %s with a test or block" % (c.line, c.name))
                _check_args(c, spec, st, False)
        prev = c


def validate(text):
    """Strict validation of a factory-style script.  Returns a Strict."""
    st = Strict()
    try:
        cmds = parse(text)
    except SieveSyntaxError as e:
        st.errors.append(str(e))
        return st
    except UnicodeDecodeError as e:
        st.errors.append("not UTF-8: %s" % e)
        return st
    _check_commands(cmds, st, True)
    missing = sorted(st.needed - set(st.required))
    if missing:
        st.errors.append("extensions used but not required: %s" % ", ".join(missing))
    st.commands = cmds
    return st


def server_validator(content):
    """PUTSCRIPT/CHECKSCRIPT validator for the reference server."""
    st = validate(content)
    if st.errors:
        return False, st.errors[0].encode("utf-8")[:200]
    return True, b""
