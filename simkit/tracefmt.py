"""Human-readable rendering of the canonical event log."""


def _b(b, limit=160):
    r = repr(bytes(b))
    if len(r) > limit:
        r = r[:limit] + "...(%d bytes)" % len(b)
    return r


def render_events(events):
    out = []
    recvs = []

    def flush():
        if recvs:
            items = []
            for a, g in recvs:
                t = "%d/%s" % (a, {-1: "EOF", -2: "TIMEOUT", -3: "RESET"}.get(g, g))
                if items and items[-1][0] == t:
                    items[-1][1] += 1
                else:
                    items.append([t, 1])
            out.append("      recv sizes asked/got: " + " ".join(t if n == 1 else "%s(x%d)" % (t, n) for t, n in items))
            del recvs[:]

    for ev in events:
        k = ev[0]
        if k == "recv":
            recvs.append((ev[2], ev[3]))
            continue
        flush()
        if k == "op":
            out.append("call#%d %s args=%s kw=%s" % (ev[1], ev[2], ev[3], ev[4]))
        elif k == "out":
            out.append("   => %s" % (ev[2:],))
        elif k == "send":
            out.append("   C[%d/%s]: %s" % (ev[1], ev[2], _b(ev[3])))
        elif k == "srv":
            out.append("   S[%d] %s: %s" % (ev[1], ev[2], _b(ev[4])))
        elif k == "connect":
            out.append("   connect conn#%d %s refused=%s" % (ev[1], ev[2], ev[3]))
        elif k == "tls":
            out.append("   TLS handshake conn#%d -> %s" % (ev[1], ev[2]))
        else:
            out.append("   %r" % (ev,))
    flush()
    return out
