"""RFC 5804 wire layer of the reference peer.

* reply trees and their (choice-driven) rendering, with the offsets at which a
  cut is structurally interesting;
* a strict, incremental decoder for client->server commands;
* an independent strict reader for server->client responses (used for the
  server's self-conformance check and by nothing else).
"""

CRLF = b"\r\n"

RESP_CODES_PLAIN = [
    b"AUTH-TOO-WEAK", b"ENCRYPT-NEEDED", b"QUOTA", b"QUOTA/MAXSCRIPTS",
    b"QUOTA/MAXSIZE", b"TRANSITION-NEEDED", b"TRYLATER", b"ACTIVE",
    b"NONEXISTENT", b"ALREADYEXISTS", b"WARNINGS",
]
RESP_CODES_PARAM = [b"TAG", b"SASL", b"REFERRAL"]


# ---------------------------------------------------------------------------
# reply trees
# ---------------------------------------------------------------------------

class Reply:
    """status in {b"OK", b"NO", b"BYE", None}; None = data lines only (a SASL
    challenge).  code = None | (name_bytes, param_bytes_or_None).  text = None
    | bytes.  lines = list of lists of items; item = ("s", bytes) | ("a", bytes)
    """

    __slots__ = ("lines", "status", "code", "text", "close_after")

    def __init__(self, status, lines=(), code=None, text=None, close_after=False):
        self.status = status
        self.lines = [list(l) for l in lines]
        self.code = code
        self.text = text
        self.close_after = close_after

    def tree(self):
        return {
            "status": self.status,
            "lines": [[(k, v) for k, v in l] for l in self.lines],
            "code": self.code,
            "text": self.text,
        }

    def __repr__(self):
        return "Reply(%r, lines=%r, code=%r, text=%r)" % (
            self.status, self.lines, self.code, self.text)


def can_quote(b):
    if b"\r" in b or b"\n" in b or b"\0" in b:
        return False
    try:
        b.decode("utf-8")
    except UnicodeDecodeError:
        return False
    return True


def quote(b):
    return b'"' + b.replace(b"\\", b"\\\\").replace(b'"', b'\\"') + b'"'


class Renderer:
    """Renders a Reply to bytes.  ``lit(kind, value) -> bool`` decides whether
    a string is sent as a literal (only consulted when quoting is possible)."""

    def __init__(self, lit, quote_binary=False):
        self.lit = lit
        self.quote_binary = quote_binary    # a non-conforming peer: strings that are not UTF-8 inside quotes
        self.out = bytearray()
        self.marks = set()   # interesting cut offsets
        self.spans = []      # (kind, start, end)

    def _mark(self, *offs):
        for o in offs:
            if o > 0:
                self.marks.add(o)

    def string(self, kind, b):
        out = self.out
        start = len(out)
        raw_ok = self.quote_binary and not (b"\r" in b or b"\n" in b or b"\0" in b)
        if (not can_quote(b) and not raw_ok) or (not raw_ok and self.lit(kind, b)):
            hdr = b"{%d}" % len(b)
            out += hdr
            self._mark(start + 1, len(out) - 1, len(out))
            out += b"\r"
            self._mark(len(out))
            out += b"\n"
            hs = len(out)
            self.spans.append(("lit-hdr", start, hs))
            self._mark(hs)
            out += b
            he = len(out)
            self.spans.append(("lit-body", hs, he))
            if len(b):
                self._mark(hs + 1, he - 1, he)
                # after each CR / LF inside the body (bounded number of marks)
                cnt = 0
                pos = b.find(b"\n")
                while pos != -1 and cnt < 8:
                    self._mark(hs + pos, hs + pos + 1)
                    cnt += 1
                    pos = b.find(b"\n", pos + 1)
                self._mbmarks(b, hs)
        else:
            q = quote(b)
            out += q
            self.spans.append(("quoted", start, len(out)))
            self._mark(start + 1, len(out) - 1)
            bs = q.find(b"\\")
            if bs != -1:
                self._mark(start + bs + 1)
            self._mbmarks(q, start)

    def _mbmarks(self, b, base):
        # middle of the first two multi-byte characters
        cnt = 0
        for i, c in enumerate(b):
            if c >= 0xC0:
                self._mark(base + i + 1)
                cnt += 1
                if cnt >= 2:
                    break

    def raw(self, b):
        self.out += b

    def crlf(self):
        self.out += b"\r"
        self._mark(len(self.out))
        self.out += b"\n"
        self._mark(len(self.out))

    def render(self, reply):
        out = self.out
        for line in reply.lines:
            first = True
            for kind, val in line:
                if not first:
                    out += b" "
                    self._mark(len(out) - 1, len(out))
                first = False
                if kind == "s":
                    self.string("data", val)
                else:
                    out += val
            self.crlf()
        if reply.status is not None:
            st = len(out)
            out += reply.status
            self._mark(st + 1, len(out))
            if reply.code is not None:
                name, param = reply.code
                out += b" ("
                self._mark(len(out) - 1, len(out))
                out += name
                if param is not None:
                    out += b" " + quote(param)
                out += b")"
                self._mark(len(out) - 1, len(out))
            if reply.text is not None:
                out += b" "
                self._mark(len(out))
                self.string("text", reply.text)
            self.spans.append(("status", st, len(out)))
            self.crlf()
        return bytes(out)


# ---------------------------------------------------------------------------
# strict command decoder (client -> server)
# ---------------------------------------------------------------------------

VERBS = {
    # verb: list of acceptable argument-kind signatures
    b"AUTHENTICATE": ["s", "ss"],
    b"STARTTLS": [""],
    b"LOGOUT": [""],
    b"CAPABILITY": [""],
    b"NOOP": ["", "s"],
    b"UNAUTHENTICATE": [""],
    b"HAVESPACE": ["sn"],
    b"PUTSCRIPT": ["ss"],
    b"CHECKSCRIPT": ["s"],
    b"LISTSCRIPTS": [""],
    b"GETSCRIPT": ["s"],
    b"SETACTIVE": ["s"],
    b"DELETESCRIPT": ["s"],
    b"RENAMESCRIPT": ["ss"],
}

SCRIPT_VERBS = (
    b"HAVESPACE", b"LISTSCRIPTS", b"GETSCRIPT", b"PUTSCRIPT", b"CHECKSCRIPT",
    b"DELETESCRIPT", b"RENAMESCRIPT", b"SETACTIVE",
)

_ALPHA = frozenset(b"ABCDEFGHIJKLMNOPQRSTUVWXYZabcdefghijklmnopqrstuvwxyz")
_DIGIT = frozenset(b"0123456789")

INCOMPLETE = "incomplete"
ERROR = "error"
OK = "ok"


class Decoded:
    __slots__ = ("verb", "args", "kinds", "raw", "forms")

    def __init__(self, verb, args, kinds, raw, forms):
        self.verb = verb      # upper-case bytes
        self.args = args      # list of bytes (strings) / int (numbers)
        self.kinds = kinds    # "s"/"n" per arg
        self.raw = raw        # the exact bytes of the command
        self.forms = forms    # "q"/"l"/"n" per arg

    def __repr__(self):
        return "%s %r" % (self.verb.decode("ascii", "replace"), self.args)


def _parse_string(buf, pos):
    """Parse quoted / literal-c2s at pos.  Returns (status, value, newpos, form,
    why)."""
    n = len(buf)
    if pos >= n:
        return INCOMPLETE, None, pos, None, None
    c = buf[pos]
    if c == 0x22:  # "
        i = pos + 1
        out = bytearray()
        while True:
            if i >= n:
                return INCOMPLETE, None, pos, None, None
            ch = buf[i]
            if ch == 0x22:
                i += 1
                break
            if ch == 0x5C:  # backslash
                if i + 1 >= n:
                    return INCOMPLETE, None, pos, None, None
                nx = buf[i + 1]
                if nx not in (0x22, 0x5C):
                    return ERROR, None, i, None, "bad escape \\%s in quoted string" % chr(nx)
                out.append(nx)
                i += 2
                continue
            if ch in (0x0D, 0x0A, 0x00):
                return ERROR, None, i, None, "raw %r inside quoted string" % bytes([ch])
            out.append(ch)
            i += 1
        try:
            bytes(out).decode("utf-8")
        except UnicodeDecodeError:
            return ERROR, None, pos, None, "quoted string is not UTF-8"
        return OK, bytes(out), i, "q", None
    if c == 0x7B:  # {
        i = pos + 1
        j = i
        while j < n and buf[j] in _DIGIT:
            j += 1
        if j >= n:
            if j - i > 20:
                return ERROR, None, pos, None, "literal length too long"
            return INCOMPLETE, None, pos, None, None
        if j == i:
            return ERROR, None, pos, None, "literal without length"
        need = b"+}\r\n"
        avail = buf[j:j + 4]
        if not need.startswith(bytes(avail)) and bytes(avail) != need:
            if bytes(avail[:1]) == b"}":
                return ERROR, None, pos, None, "synchronising literal {n} sent by client"
            return ERROR, None, pos, None, "malformed literal header"
        if len(avail) < 4:
            return INCOMPLETE, None, pos, None, None
        cnt = int(bytes(buf[i:j]))
        start = j + 4
        if n - start < cnt:
            return INCOMPLETE, None, pos, None, None
        return OK, bytes(buf[start:start + cnt]), start + cnt, "l", None
    return ERROR, None, pos, None, "string expected, found %r" % bytes(buf[pos:pos + 12])


def parse_string_line(buf):
    """A SASL continuation line: string CRLF.  Returns (status, value, consumed,
    why)."""
    st, val, pos, form, why = _parse_string(buf, 0)
    if st != OK:
        if st == ERROR:
            return ERROR, None, _resync(buf, 0), why
        return st, None, 0, why
    if len(buf) - pos < 2:
        if buf[pos:pos + 1] in (b"", b"\r"):
            return INCOMPLETE, None, 0, None
        return ERROR, None, _resync(buf, pos), "garbage after continuation string"
    if bytes(buf[pos:pos + 2]) != CRLF:
        return ERROR, None, _resync(buf, pos), "garbage after continuation string"
    return OK, val, pos + 2, None


def _resync(buf, pos):
    """Position just after the next CRLF at or after pos (or len(buf))."""
    i = bytes(buf).find(CRLF, pos)
    if i == -1:
        return len(buf)
    return i + 2


def parse_command(buf):
    """Try to decode one command from the start of buf.

    Returns (status, decoded_or_None, consumed, why).  On ERROR ``consumed``
    is the resynchronisation point (after the next CRLF, or everything).
    """
    n = len(buf)
    i = 0
    while i < n and buf[i] in _ALPHA:
        i += 1
    if i >= n:
        if n > 64:
            return ERROR, None, n, "no verb terminator in %r" % bytes(buf[:40])
        return INCOMPLETE, None, 0, None
    if i == 0:
        return ERROR, None, _resync(buf, 0), "command does not start with a verb: %r" % bytes(buf[:40])
    verb = bytes(buf[:i]).upper()
    args, kinds, forms = [], [], []
    pos = i
    while True:
        if pos >= n:
            return INCOMPLETE, None, 0, None
        c = buf[pos]
        if c == 0x0D:
            if pos + 1 >= n:
                return INCOMPLETE, None, 0, None
            if buf[pos + 1] != 0x0A:
                return ERROR, None, _resync(buf, pos), "CR without LF"
            pos += 2
            break
        if c != 0x20:
            return ERROR, None, _resync(buf, pos), "unexpected byte %r after %s" % (
                bytes(buf[pos:pos + 12]), verb.decode())
        pos += 1
        if pos >= n:
            return INCOMPLETE, None, 0, None
        c = buf[pos]
        if c in _DIGIT:
            j = pos
            while j < n and buf[j] in _DIGIT:
                j += 1
            if j >= n:
                return INCOMPLETE, None, 0, None
            args.append(int(bytes(buf[pos:j])))
            kinds.append("n")
            forms.append("n")
            pos = j
            continue
        st, val, npos, form, why = _parse_string(buf, pos)
        if st == INCOMPLETE:
            return INCOMPLETE, None, 0, None
        if st == ERROR:
            return ERROR, None, _resync(buf, npos), why
        args.append(val)
        kinds.append("s")
        forms.append(form)
        pos = npos
    sigs = VERBS.get(verb)
    raw = bytes(buf[:pos])
    if sigs is None:
        return ERROR, None, pos, "unknown verb %r" % verb
    if "".join(kinds) not in sigs:
        return ERROR, None, pos, "%s with argument kinds %r (expected one of %r)" % (
            verb.decode(), "".join(kinds), sigs)
    return OK, Decoded(verb, args, kinds, raw, forms), pos, None


# ---------------------------------------------------------------------------
# independent strict reader for responses (server -> client)
# ---------------------------------------------------------------------------

class ResponseSyntaxError(Exception):
    pass


def _rd_string(b, pos):
    if b[pos:pos + 1] == b'"':
        i = pos + 1
        out = bytearray()
        while True:
            if i >= len(b):
                raise ResponseSyntaxError("unterminated quoted string")
            ch = b[i]
            if ch == 0x22:
                return bytes(out), i + 1
            if ch == 0x5C:
                nx = b[i + 1:i + 2]
                if nx not in (b'"', b"\\"):
                    raise ResponseSyntaxError("bad escape")
                out += nx
                i += 2
                continue
            if ch in (0x0D, 0x0A, 0):
                raise ResponseSyntaxError("raw control in quoted string")
            out.append(ch)
            i += 1
    if b[pos:pos + 1] == b"{":
        j = b.index(b"}", pos)
        digits = b[pos + 1:j]
        if not digits.isdigit():
            raise ResponseSyntaxError("bad literal length %r" % digits)
        if b[j + 1:j + 3] != CRLF:
            raise ResponseSyntaxError("literal header not followed by CRLF")
        cnt = int(digits)
        start = j + 3
        if len(b) - start < cnt:
            raise ResponseSyntaxError("literal longer than data")
        return b[start:start + cnt], start + cnt
    raise ResponseSyntaxError("string expected at %r" % b[pos:pos + 10])


def parse_response(b, expect_status=True):
    """Parse the bytes of one complete reply back into a tree
    {"status","lines","code","text"}; raises ResponseSyntaxError.  With
    expect_status False the bytes are data lines only (SASL challenge)."""
    pos = 0
    lines = []
    n = len(b)
    while True:
        if pos >= n:
            if expect_status:
                raise ResponseSyntaxError("no status line")
            return {"status": None, "lines": lines, "code": None, "text": None}
        for st in (b"OK", b"NO", b"BYE"):
            if b.startswith(st, pos) and b[pos + len(st):pos + len(st) + 1] in (b" ", b"\r"):
                p = pos + len(st)
                code = None
                text = None
                if b[p:p + 2] == b" (":
                    q = p + 2
                    e = q
                    while b[e:e + 1] not in (b" ", b")"):
                        e += 1
                        if e >= n:
                            raise ResponseSyntaxError("unterminated code")
                    name = b[q:e]
                    param = None
                    if b[e:e + 1] == b" ":
                        param, e = _rd_string(b, e + 1)
                    if b[e:e + 1] != b")":
                        raise ResponseSyntaxError("code not closed")
                    code = (name, param)
                    p = e + 1
                if b[p:p + 1] == b" ":
                    text, p = _rd_string(b, p + 1)
                if b[p:p + 2] != CRLF:
                    raise ResponseSyntaxError("status line not terminated: %r" % b[p:p + 10])
                if p + 2 != n:
                    raise ResponseSyntaxError("bytes after the status line")
                return {"status": st, "lines": lines, "code": code, "text": text}
        items = []
        while True:
            c = b[pos:pos + 1]
            if c in (b'"', b"{"):
                v, pos = _rd_string(b, pos)
                items.append(("s", v))
            else:
                e = pos
                while e < n and b[e:e + 1] not in (b" ", b"\r"):
                    e += 1
                if e == pos:
                    raise ResponseSyntaxError("empty item")
                items.append(("a", b[pos:e]))
                pos = e
            if b[pos:pos + 2] == CRLF:
                pos += 2
                break
            if b[pos:pos + 1] != b" ":
                raise ResponseSyntaxError("item separator expected at %r" % b[pos:pos + 10])
            pos += 1
        lines.append(items)
