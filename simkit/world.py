"""A simulated world: chooser + reference server + network seam + the client
under test, with seams patched for the duration of a run."""

import gc
import hashlib
import sys

from .chooser import Chooser
from .mserver import SimServer, ServerConfig
from .net import SimNet, SimHang, SeamGap, SimClock

_ms = None
_dm = None


def _modules():
    global _ms, _dm
    if _ms is None:
        import sievelib.managesieve as ms
        import sievelib.digest_md5 as dm
        _ms, _dm = ms, dm
    return _ms, _dm


# modules the simulator cannot own: using them is a seam gap (harness error at the point of use, not at import)
GAP_MODULES = ("asyncio", "select", "selectors", "subprocess", "threading", "multiprocessing", "signal")


def check_no_unsimulated_imports():
    """Kept for the setup command: reports (informational) which modules of the client code would be replaced by
    gap-raising stand-ins during a run.  ``time`` is not one of them: it gets a virtual clock."""
    ms, dm = _modules()
    import types
    found = []
    for mod in (ms, dm):
        for k, v in vars(mod).items():
            if isinstance(v, types.ModuleType) and v.__name__ in GAP_MODULES:
                found.append("%s.%s" % (mod.__name__, k))
    return []


class FakeTime:
    """Stand-in for the ``time`` module: every clock reads the simulator's virtual clock, sleep advances it."""

    def __init__(self, clock):
        self._clock = clock
        import time as _t
        self.struct_time = _t.struct_time

    def time(self):
        return 1700000000.0 + self._clock.now

    def monotonic(self):
        return self._clock.now

    perf_counter = monotonic

    def time_ns(self):
        return int(self.time() * 1e9)

    def monotonic_ns(self):
        return int(self._clock.now * 1e9)

    def sleep(self, s):
        self._clock.now += max(0.0, float(s))

    def __getattr__(self, name):
        import time as _t
        v = getattr(_t, name)
        if callable(v) and name in ("gmtime", "localtime", "strftime", "ctime", "asctime", "mktime", "strptime"):
            return v
        raise SeamGap("time.%s is not provided by the seam" % name)


class _GapModule:
    def __init__(self, name):
        self._name = name

    def __getattr__(self, attr):
        raise SeamGap("%s.%s: this module cannot be simulated" % (self._name, attr))


class _Null:
    def write(self, s):
        return len(s)

    def flush(self):
        pass


_NULL = _Null()


class SeededRandomModule:
    """Stand-in for the ``random`` module inside sievelib.digest_md5."""

    def __init__(self, ch):
        self._ch = ch

    def _draw(self, n):
        with self._ch.abs_scope("nonce"):
            return self._ch.draw("srv", "rand", n)

    def randint(self, a, b):
        return a + self._draw(b - a + 1)

    def randrange(self, a, b=None):
        if b is None:
            a, b = 0, a
        return a + self._draw(b - a)

    def getrandbits(self, k):
        return self._draw(1 << k)

    def random(self):
        return self._draw(1 << 30) / float(1 << 30)

    def choice(self, seq):
        return seq[self._draw(len(seq))]

    # the `secrets` flavour and a few more of `random`
    def randbelow(self, n):
        return self._draw(n)

    def randbytes(self, n):
        return bytes(self._draw(256) for _ in range(n))

    token_bytes = randbytes

    def token_hex(self, n=32):
        return self.randbytes(n).hex()

    def token_urlsafe(self, n=32):
        import base64
        return base64.urlsafe_b64encode(self.randbytes(n)).rstrip(b"=").decode("ascii")

    def uniform(self, a, b):
        return a + (b - a) * self.random()

    def shuffle(self, x):
        for i in reversed(range(1, len(x))):
            j = self._draw(i + 1)
            x[i], x[j] = x[j], x[i]

    def sample(self, population, k):
        pool = list(population)
        self.shuffle(pool)
        return pool[:k]

    def SystemRandom(self, *a):
        return self

    Random = SystemRandom

    def seed(self, *a, **k):
        return None

    def compare_digest(self, a, b):
        import hmac
        return hmac.compare_digest(a, b)

    def __getattr__(self, name):
        raise SeamGap("random.%s is not provided by the seam" % name)


class _ProxyModule:
    """A module with a few nondeterministic functions replaced (os.urandom, uuid.uuid4 ...); the rest is the real one."""

    def __init__(self, real, overrides):
        self.__dict__["_real"] = real
        self.__dict__["_over"] = overrides

    def __getattr__(self, name):
        o = self.__dict__["_over"]
        if name in o:
            return o[name]
        return getattr(self.__dict__["_real"], name)


class Outcome:
    __slots__ = ("kind", "value", "exc_type", "exc_msg", "errcode", "errmsg",
                 "writes", "call_id", "exc_obj")

    def __init__(self):
        self.kind = None
        self.value = None
        self.exc_type = None
        self.exc_msg = None
        self.errcode = None
        self.errmsg = None
        self.writes = ()
        self.call_id = None
        self.exc_obj = None

    def key(self):
        """Comparable, hashable, address-free rendering."""
        if self.kind == "ret":
            return ("ret", repr(self.value))
        if self.kind == "exc":
            return ("exc", self.exc_type, self.exc_msg)
        return ("hang",)

    def full_key(self):
        return (self.key(), repr(self.errcode), repr(self.errmsg),
                tuple((w[1], w[2], w[3]) for w in self.writes))

    def __repr__(self):
        if self.kind == "ret":
            return "-> %r" % (self.value,)
        if self.kind == "exc":
            return "raised %s(%r)" % (self.exc_type, self.exc_msg)
        return "HANG(%s)" % self.exc_msg


class World:
    def __init__(self, ch, cfg=None, client_impl="real", net_mode=None, read_size=None, read_timeout=None):
        self.ch = ch
        self.cfg = cfg or ServerConfig()
        self.server = SimServer(ch, self.cfg)
        self.clock = SimClock()
        self.net = SimNet(ch, self.server, self.clock, net_mode=net_mode)
        self.client_impl = client_impl
        self.read_size = read_size
        self.read_timeout = read_timeout
        self._saved = None
        self._calls = 0
        # swarm knob: clients created with debug=True (their prints are swallowed)
        with ch.abs_scope("world"):
            self.debug = ch.wl.flag("debug", 1, 6)
            # ... and clients given their port as a decimal string (socket.create_connection accepts either)
            self.port_as_str = ch.wl.flag("port_as_str", 1, 8)
        self.clients = []
        self.parse_breaches = []

    # -- seam patching ---------------------------------------------------
    def __enter__(self):
        ms, dm = _modules()
        if self.client_impl == "ref":
            from . import refclient as rc
            self._saved = ("ref", rc.socket, rc.ssl, rc.RefClient.read_size, rc.RefClient.read_timeout)
            rc.socket = self.net.socket_module
            rc.ssl = self.net.ssl_module
            self.client_cls = rc.RefClient
            self.error_cls = rc.Error
        else:
            self._saved = ("real", ms.socket, ms.ssl, getattr(dm, "random", None), ms.Client.read_size, ms.Client.read_timeout)
            ms.socket = self.net.socket_module
            ms.ssl = self.net.ssl_module
            if hasattr(dm, "random"):
                dm.random = SeededRandomModule(self.ch)
            # seams a future tree may grow: a clock (virtualised), a randomness source in the client module (seeded),
            # modules that cannot be simulated (gap-raising stand-ins)
            import types
            self._extra = []
            for mod in (ms, dm):
                for k, v in list(vars(mod).items()):
                    if not isinstance(v, types.ModuleType):
                        continue
                    if v.__name__ == "time":
                        self._extra.append((mod, k, v))
                        setattr(mod, k, FakeTime(self.clock))
                    elif v.__name__ in ("random", "secrets") and not (mod is dm and k == "random"):
                        self._extra.append((mod, k, v))
                        setattr(mod, k, SeededRandomModule(self.ch))
                    elif v.__name__ == "os":
                        rnd = SeededRandomModule(self.ch)
                        self._extra.append((mod, k, v))
                        setattr(mod, k, _ProxyModule(v, {"urandom": rnd.randbytes, "getrandom": lambda n, flags=0: rnd.randbytes(n)}))
                    elif v.__name__ == "uuid":
                        import uuid as _uuid
                        rnd = SeededRandomModule(self.ch)
                        mk = lambda *a, **kw: _uuid.UUID(bytes=rnd.randbytes(16), version=4)      # noqa: E731
                        self._extra.append((mod, k, v))
                        setattr(mod, k, _ProxyModule(v, {"uuid4": mk, "uuid1": mk}))
                    elif v.__name__ in GAP_MODULES:
                        self._extra.append((mod, k, v))
                        setattr(mod, k, _GapModule(v.__name__))
            self.client_cls = ms.Client
            self.error_cls = ms.Error
        if self.read_size is not None:
            self.client_cls.read_size = self.read_size
        if self.read_timeout is not None:
            self.client_cls.read_timeout = self.read_timeout
        self._gc = gc.isenabled()
        gc.disable()
        return self

    def __exit__(self, *a):
        ms, dm = _modules()
        # drop clients while the seam is still in place (their __del__ closes sockets)
        for c in self.clients:
            try:
                s = getattr(c, "sock", None)
                if s is not None:
                    s.close()
                    c.sock = None
            except BaseException:
                pass
        self.clients = []
        if self._saved[0] == "ref":
            from . import refclient as rc
            _, rc.socket, rc.ssl, rc.RefClient.read_size, rc.RefClient.read_timeout = self._saved
        else:
            _, ms.socket, ms.ssl, saved_random, ms.Client.read_size, ms.Client.read_timeout = self._saved
            if saved_random is not None:
                dm.random = saved_random
            for mod, k, v in getattr(self, "_extra", []):
                setattr(mod, k, v)
        if self._gc:
            gc.enable()
        return False

    # -- clients ----------------------------------------------------------
    def new_client(self, host="sieve.example", port=4190):
        if self.port_as_str:
            port = str(port)
        c = self.client_cls(host, port, debug=self.debug) if self.debug else self.client_cls(host, port)
        self.clients.append(c)
        return c

    def call(self, client, method, *args, **kw):
        self._calls += 1
        cid = self._calls
        net = self.net
        net.begin_call(cid)
        nw = len(net.writes)
        out = Outcome()
        out.call_id = cid
        net.events.append(("op", cid, method, repr(args), repr(sorted(kw.items()))))
        saved_stdout = None
        if self.debug:
            saved_stdout = sys.stdout
            sys.stdout = _NULL
        try:
            fn = getattr(client, method)
            out.value = fn(*args, **kw)
            out.kind = "ret"
        except SimHang as e:
            out.kind = "hang"
            out.exc_msg = str(e)
        except SeamGap:
            raise
        except RecursionError as e:
            out.kind = "exc"
            out.exc_type = "RecursionError"
            out.exc_msg = ""
            out.exc_obj = e
        except Exception as e:
            out.kind = "exc"
            out.exc_type = "Error" if isinstance(e, self.error_cls) else type(e).__name__
            out.exc_msg = str(e)
            out.exc_obj = e
        finally:
            if saved_stdout is not None:
                sys.stdout = saved_stdout
        out.errcode = getattr(client, "errcode", None)
        out.errmsg = getattr(client, "errmsg", None)
        out.writes = tuple(net.writes[nw:])
        net.events.append(("out", cid) + out.key())
        return out

    # -- digest -------------------------------------------------------------
    def digest(self):
        h = hashlib.sha256()
        for ev in self.net.events:
            h.update(repr(ev).encode("utf-8", "backslashreplace"))
            h.update(b"\n")
        return h.hexdigest()
