#!/venv/bin/python
"""Negative controls written by sub-agents: changes that alter HOW the library
does its job while (by their author's argument, reviewed at intake) the
property still holds.  Every check that could be concerned is run against
each; any VIOLATION is either a mistake in the change (then it is moved to
seeded/ or dropped) or a false alarm of ours (then the check is corrected).

  benign.py intake <basedir> <tag> <Cxx>     take <basedir>/<Cxx>/{a,b}/ into /verif/benign/<Cxx>-<tag>{a,b}/ and run the checks
  benign.py run <id> [Cxx ...]               run checks (default: all concerned) against one stored change
  benign.py all                              re-run everything under /verif/benign, print a table; exit 1 if anything alarms
"""
import json
import os
import shutil
import sys

sys.path.insert(0, os.path.dirname(os.path.abspath(__file__)))
import seeded as S

WIRE = ["C05", "C08", "C09", "C10", "C14", "C15", "C16", "C17"]
EDIT = ["C06", "C11", "C12", "C13", "C19"]


def concerned(patch):
    text = open(patch).read()
    out = []
    if "managesieve.py" in text or "digest_md5.py" in text:
        out += WIRE
    if any(f in text for f in ("factory.py", "commands.py", "parser.py", "tools.py")):
        out += EDIT
    if "tools.py" in text and "managesieve" not in text:
        pass
    return out or WIRE + EDIT


def run(sd, props):
    # a change written to preserve ONE property may break another one (its author never saw it): such pairs are recorded
    # in meta.json ("excluded_checks": {"Cxx": "why it is a real violation of Cxx"}) after review and are not run
    try:
        ex = json.load(open(os.path.join(sd, "meta.json"))).get("excluded_checks", {})
    except Exception:
        ex = {}
    props = [p for p in props if p not in ex]
    res = S.run_checks(sd, props, scale=os.environ.get("VERIF_BENIGN_SCALE"))
    alarms = [p for p in res if res[p]["rc"] == 1]
    broken = [p for p in res if res[p]["rc"] not in (0, 1)]
    return res, alarms, broken


def main(argv):
    base = os.path.join(S.VERIF, "benign")
    if argv[0] == "intake":
        src, tag, prop = argv[1], argv[2], argv[3]
        for x in sorted(os.listdir(os.path.join(src, prop))):
            sd = os.path.join(src, prop, x)
            if not os.path.isfile(os.path.join(sd, "patch.diff")):
                continue
            name = "%s-%s%s" % (prop, tag, x)
            dst = os.path.join(base, name)
            os.makedirs(dst, exist_ok=True)
            shutil.copy(os.path.join(sd, "patch.diff"), dst)
            meta = json.load(open(os.path.join(sd, "meta.json")))
            d = S.scratch(os.path.join(dst, "patch.diff"))
            try:
                ok, tail = S.suite(d)
            finally:
                shutil.rmtree(d, ignore_errors=True)
            meta["suite_here"] = tail
            props = concerned(os.path.join(dst, "patch.diff"))
            if len(argv) > 4:
                # intake under time pressure: only the named checks (recorded in meta.json as "checks_run_subset")
                props = argv[4].split(",")
                meta["checks_run_subset"] = props
            res, alarms, broken = run(dst, props)
            meta["checks"] = {p: {"exit": res[p]["rc"], "output": res[p]["lines"][:3], "wall_s": res[p]["wall_s"]} for p in res}
            meta["alarms"] = alarms
            meta["harness_errors"] = broken
            json.dump(meta, open(os.path.join(dst, "meta.json"), "w"), indent=1)
            print("%s suite=%s alarms=%s harness=%s" % (name, tail, alarms or "-", broken or "-"))
            for p in alarms + broken:
                print("   %s: %s" % (p, " | ".join(res[p]["lines"])[:400]))
        return 0
    if argv[0] == "run":
        sd = os.path.join(base, argv[1])
        props = argv[2:] or concerned(os.path.join(sd, "patch.diff"))
        res, alarms, broken = run(sd, props)
        print(json.dumps(res, indent=1))
        return 1 if alarms or broken else 0
    if argv[0] == "all":
        bad = 0
        for name in sorted(os.listdir(base)):
            sd = os.path.join(base, name)
            if not os.path.isfile(os.path.join(sd, "patch.diff")):
                continue
            meta = json.load(open(os.path.join(sd, "meta.json")))
            if meta.get("status") == "dropped":
                continue
            props = concerned(os.path.join(sd, "patch.diff"))
            res, alarms, broken = run(sd, props)
            print("%-14s alarms=%-10s harness=%-6s %s" % (name, ",".join(alarms) or "-", ",".join(broken) or "-",
                                                        "; ".join("%s %.0fs" % (p, res[p]["wall_s"]) for p in res)), flush=True)
            bad += bool(alarms or broken)
        print("benign changes with an alarm or a harness error: %d" % bad)
        return 1 if bad else 0
    print(__doc__)
    return 2


if __name__ == "__main__":
    sys.exit(main(sys.argv[1:]))
