#!/venv/bin/python
"""Take sub-agent output /tmp/seeded/<Cxx>/<x>/ into /verif/seeded/<Cxx>-<x>/ after
confirming it (suite passes with the patch, demo fails with it, passes without)
and running our checks against it."""
import json
import os
import shutil
import sys

sys.path.insert(0, os.path.dirname(os.path.abspath(__file__)))
import seeded as S

VERIF = S.VERIF


def main(argv):
    base, tag = "/tmp/seeded", ""
    if argv[0].startswith("/"):
        base, tag = argv[0], argv[1]
        argv = argv[2:]
    prop = argv[0]
    extra = argv[1:]
    for x in sorted(os.listdir("%s/%s" % (base, prop))):
        sd = "%s/%s/%s" % (base, prop, x)
        if not os.path.isfile(os.path.join(sd, "patch.diff")):
            continue
        v = S.verify(sd)
        meta = json.load(open(os.path.join(sd, "meta.json")))
        props = [prop] + [p for p in extra if p != prop]
        res = S.run_checks(sd, props) if v["ok"] else {}
        caught = [p for p in props if res.get(p, {}).get("rc") == 1]
        name = "%s-%s%s" % (prop, tag, x)
        print("%s verified=%s caught_by=%s" % (name, v["ok"], caught or "-"))
        for p in props:
            if p in res:
                print("   %s rc=%d %s" % (p, res[p]["rc"], " | ".join(res[p]["lines"])[:300]))
        if not v["ok"]:
            print("   NOT KEPT: %r" % v)
            continue
        dst = os.path.join(VERIF, "seeded", name)
        os.makedirs(dst, exist_ok=True)
        shutil.copy(os.path.join(sd, "patch.diff"), dst)
        shutil.copy(os.path.join(sd, "demo.py"), dst)
        meta["breaks_property"] = prop
        meta["what_i_ran"] = {
            "confirmation": "tools/seeded.py verify: scratch copy of /repo + patch -> pinned suite (%s); demo.py fails with the patch and passes without" % v["suite_tail"],
            "checks": {p: {"exit": res[p]["rc"], "output": res[p]["lines"], "wall_s": res[p]["wall_s"]} for p in res},
        }
        meta["caught_by"] = caught
        meta["run_checks"] = props
        json.dump(meta, open(os.path.join(dst, "meta.json"), "w"), indent=1)


main(sys.argv[1:])
