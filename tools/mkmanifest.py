#!/venv/bin/python
"""Regenerate MANIFEST.json from the scenario modules' metadata."""
import importlib
import json
import os
import sys

VERIF = os.path.dirname(os.path.dirname(os.path.abspath(__file__)))
sys.path[0:0] = ["/repo", VERIF]

CLAIMED = [p for p in ["C05", "C06", "C08", "C09", "C10", "C11", "C12", "C13", "C14", "C15", "C16", "C17", "C19"]
           if os.path.exists(os.path.join(VERIF, "scenarios", p.lower() + ".py"))]

NA = {
    "C01": "Parser.parse verdict is a pure function of the script text: no schedule, clock, stream, peer, fault or interleaving for a deterministic simulator to own (DESIGN.md section 6).",
    "C02": "Termination/exception-freedom of one parse call on one byte string: pure function of the bytes; nothing to schedule or fault (DESIGN.md section 6).",
    "C03": "Fidelity of the tree to the source is a relation between one input and one output of a pure function (DESIGN.md section 6).",
    "C04": "Print/parse round trip is a pure function of the accepted script (DESIGN.md section 6).",
    "C07": "require gating is decided inside one parse of one script; its only history-dependent aspect (process-global extension list) is C13 and is decided there (DESIGN.md section 6).",
    "C18": "Error line/column arithmetic is a pure function of the script (DESIGN.md section 6).",
    "C20": "Behaviour after add_commands is a pure function of (definition, script); its 'configurations' are argument definitions, i.e. inputs (DESIGN.md section 6).",
}
PENDING = "check not built yet in this session (claimed in DESIGN.md; will be registered when its scenario exists)"

TECH = {
    "C05": "deterministic simulation: seeded recv-segmentation schedules over a socket seam, differential oracle against the unsegmented execution of the same byte stream",
    "C08": "deterministic simulation: two-party wire simulation; the reference server's strict RFC 5804 decoder is the oracle for seeded hostile arguments",
    "C09": "deterministic simulation with fault injection: forced NO/BYE verdicts at every step x reply shapes from the RFC 5804 grammar; oracle = server ground-truth log",
    "C10": "deterministic simulation with fault injection: complete handshake fault grid (refuse/BYE/NO/silence/close/garbage/TLS failures) x call histories; safety invariants over the ordered write log",
    "C14": "deterministic simulation with fault injection: complete grid of initial store x fault placement (NO/BYE/silence/close, applied-then-lost) against a reference server; store before/after oracle",
    "C15": "deterministic simulation: seeded multi-client sessions against an executable reference server (state-driven and forced refusals, encodings, segmentation); step-by-step comparison with server truth",
    "C16": "deterministic simulation: handshake simulation with server-side SASL decoders (PLAIN/LOGIN/OAUTHBEARER/DIGEST-MD5, seeded nonce) over a complete configuration grid plus seeded credentials",
    "C17": "deterministic simulation: server-side hostile store served in every RFC 5804 encoding under seeded segmentation; comparison with the store",
    "C12": "deterministic simulation: seeded operation histories against a reference list model (refinement checked after every step), short histories enumerated exhaustively",
    "C11": "deterministic simulation with crash/restart: editing histories with restart points where only the rendered script survives (locally and end-to-end through client, wire and reference server)",
    "C19": "deterministic simulation with restart: seeded filter definitions read back before and after disable/enable and restart (only the rendered text survives)",
    "C06": "deterministic simulation with restart: editing histories rendered after every step; independent strict Sieve reader + value-substitution skeleton invariance; end-to-end upload to the reference server's validator",
    "C13": "deterministic simulation: seeded interleavings of independent library users sharing process-global state; each outcome compared with the same call in a pristine forked interpreter",
}


def main():
    checks = []
    for p in CLAIMED:
        scn = importlib.import_module("scenarios." + p.lower())
        level = getattr(scn, "LEVEL", "exploration")
        checks.append({
            "property_id": p,
            "quick_cmd": "/venv/bin/python bin/vcheck run %s --tier quick" % p,
            "thorough_cmd": "/venv/bin/python bin/vcheck run %s --tier thorough" % p,
            "evidence_file": "evidence/%s.json" % p,
            "replay_cmd_template": "/venv/bin/python bin/vcheck replay {path}",
            "engine": "simkit",
            "level_claimed": {
                "category": level,
                "text": getattr(scn, "LEVEL_TEXT", None) or (
                    ("The stated fault/state grid is enumerated completely in every run; beyond the grid, seeded sampling. " if level == "fault_enumeration" else
                     "Seeded search over schedules, faults and generated inputs; evidence, not proof. ") + scn.RULE),
                "design_ref": "DESIGN.md section 5 " + p,
            },
            "level_note": "Trusted base: simkit (keyed choice tape, socket/ssl seam, reference RFC 5804 server and its strict decoder, independent Sieve reader) and our reading of the RFCs; only what the generated runs reach is covered. " + "; ".join(getattr(scn, "ASSUMPTIONS", [])),
            "technique": TECH[p],
        })
    na = [{"property_id": k, "reason": v} for k, v in sorted(NA.items())]
    for p in ["C05", "C06", "C08", "C09", "C10", "C11", "C12", "C13", "C14", "C15", "C16", "C17", "C19"]:
        if p not in CLAIMED:
            na.append({"property_id": p, "reason": PENDING})
    na.sort(key=lambda x: x["property_id"])
    m = {
        "version": 1,
        "setup_cmd": "/venv/bin/python bin/vcheck setup",
        "hooks": {
            "guard": "SIEVELIB_VERIF",
            "enable": "no hooks in /repo: for the duration of a run the simulator replaces the module attributes sievelib.managesieve.socket, sievelib.managesieve.ssl and the randomness sources the client modules import (random / secrets / os.urandom / uuid) (the seams the code already has)",
            "baseline_off_cmd": "cd /repo && /venv/bin/python -m pytest -ra -q -p no:cacheprovider --timeout=900 --continue-on-collection-errors",
            "source_commits": [],
            "add_only": True,
        },
        "engines": [{
            "name": "simkit", "path": "simkit/", "serves_properties": CLAIMED,
            "kind_free_text": "deterministic simulator written for this repository: keyed seeded choice tape (one integer decides everything), in-process socket/ssl seam with delivery policies and virtual time, executable RFC 5804 reference server with fault injection and SASL server sides, editor/actor engines, tape minimiser, replay files re-executed in a fresh interpreter",
        }],
        "checks": checks,
        "notes": "Entry point bin/vcheck (run / replay / selftest). Exit 0 = held on everything explored (KNOWN-FINDING lines allowed), 1 = VIOLATION line with replay file, 2 = harness error. Honoured: VERIF_SEED, VERIF_TIER, VERIF_JOBS, VERIF_BUDGET_S. fix: commits in /repo are listed in known_findings.json.",
        "not_applicable": na,
    }
    with open(os.path.join(VERIF, "MANIFEST.json"), "w") as fp:
        json.dump(m, fp, indent=1)
    print("checks:", [c["property_id"] for c in checks])


main()
