#!/venv/bin/python
"""First-order mutation sweep: generate small syntactic mutants of the library,
keep those the pinned suite does not notice, and run our checks against each.

  mutate.py list   <file>                      print the mutants of a source file (id, line, description)
  mutate.py sweep  <file> <out.jsonl> [--props C05,C08,...] [--scale 0.15] [--from N] [--to M]

Survivors (suite passes, no check reports a violation) are the interesting
output: each is either an equivalent mutant or a blind spot.  Works on scratch
copies of /repo only.
"""
import ast
import copy
import json
import os
import shutil
import subprocess
import sys
import tempfile
import time

VERIF = os.path.dirname(os.path.dirname(os.path.abspath(__file__)))
PY = "/venv/bin/python"

CMP = {ast.Eq: ast.NotEq, ast.NotEq: ast.Eq, ast.Lt: ast.LtE, ast.LtE: ast.Lt, ast.Gt: ast.GtE, ast.GtE: ast.Gt,
       ast.In: ast.NotIn, ast.NotIn: ast.In, ast.Is: ast.IsNot, ast.IsNot: ast.Is}


class Site:
    def __init__(self, kind, lineno, desc, apply):
        self.kind, self.lineno, self.desc, self.apply = kind, lineno, desc, apply


def is_docstring(node, parent):
    return isinstance(parent, ast.Expr) and isinstance(node, ast.Constant) and isinstance(node.value, str)


def collect(tree):
    """Returns a list of (description, function that mutates a deep copy given the node path)."""
    sites = []
    parents = {}
    for node in ast.walk(tree):
        for child in ast.iter_child_nodes(node):
            parents[child] = node
    nodes = list(ast.walk(tree))
    index = {id(n): i for i, n in enumerate(nodes)}

    def add(node, kind, desc, fn):
        sites.append((index[id(node)], kind, getattr(node, "lineno", 0), desc, fn))

    for node in nodes:
        par = parents.get(node)
        if isinstance(node, ast.Compare):
            for k, op in enumerate(node.ops):
                new = CMP.get(type(op))
                if new is not None:
                    add(node, "cmp", "%s -> %s" % (type(op).__name__, new.__name__),
                        lambda n, k=k, new=new: n.ops.__setitem__(k, new()))
        elif isinstance(node, ast.BoolOp):
            new = ast.Or if isinstance(node.op, ast.And) else ast.And
            add(node, "bool", "%s -> %s" % (type(node.op).__name__, new.__name__), lambda n, new=new: setattr(n, "op", new()))
        elif isinstance(node, ast.UnaryOp) and isinstance(node.op, ast.Not):
            add(node, "not", "drop 'not'", lambda n: ("replace", n.operand))
        elif isinstance(node, (ast.If, ast.While)) and not isinstance(node.test, ast.Constant):
            add(node, "negcond", "negate condition", lambda n: setattr(n, "test", ast.UnaryOp(op=ast.Not(), operand=n.test)))
        elif isinstance(node, ast.Constant) and not is_docstring(node, par):
            v = node.value
            if isinstance(v, bool):
                add(node, "const", "%r -> %r" % (v, not v), lambda n, v=v: setattr(n, "value", not v))
            elif isinstance(v, int):
                add(node, "const", "%r -> %r" % (v, v + 1), lambda n, v=v: setattr(n, "value", v + 1))
                if v != 0:
                    add(node, "const", "%r -> %r" % (v, v - 1), lambda n, v=v: setattr(n, "value", v - 1))
            elif isinstance(v, (bytes, str)) and 0 < len(v) <= 24 and not isinstance(par, ast.JoinedStr):
                empty = v[:0]
                add(node, "const", "%r -> %r" % (v, empty), lambda n, e=empty: setattr(n, "value", e))
        elif isinstance(node, ast.BinOp) and isinstance(node.op, (ast.Add, ast.Sub)) and not isinstance(node.left, ast.Constant):
            new = ast.Sub if isinstance(node.op, ast.Add) else ast.Add
            add(node, "arith", "%s -> %s" % (type(node.op).__name__, new.__name__), lambda n, new=new: setattr(n, "op", new()))
        elif isinstance(node, ast.Break):
            add(node, "stmt", "break -> continue", lambda n: ("replace", ast.Continue()))
        elif isinstance(node, ast.Continue):
            add(node, "stmt", "continue -> break", lambda n: ("replace", ast.Break()))
        elif isinstance(node, ast.Return) and node.value is not None and not (isinstance(node.value, ast.Constant) and node.value.value is None):
            add(node, "stmt", "return <expr> -> return None", lambda n: setattr(n, "value", ast.Constant(value=None)))
        elif isinstance(node, (ast.Assign, ast.AugAssign)) or (isinstance(node, ast.Expr) and isinstance(node.value, ast.Call)):
            if isinstance(par, (ast.FunctionDef, ast.If, ast.For, ast.While, ast.Try, ast.With, ast.ExceptHandler)):
                add(node, "del", "delete statement", lambda n: ("replace", ast.Pass()))
        elif isinstance(node, ast.Slice):
            if isinstance(node.lower, ast.Constant) and isinstance(node.lower.value, int):
                add(node, "slice", "drop slice lower bound", lambda n: setattr(n, "lower", None))
            if isinstance(node.upper, ast.Constant) and isinstance(node.upper.value, int):
                add(node, "slice", "drop slice upper bound", lambda n: setattr(n, "upper", None))
        elif isinstance(node, ast.Raise) and node.exc is not None:
            add(node, "stmt", "raise -> pass", lambda n: ("replace", ast.Pass()))
    sites.sort(key=lambda s: (s[2], s[0]))
    return sites


def mutants(path):
    src = open(path).read()
    tree = ast.parse(src)
    sites = collect(tree)
    out = []
    for mid, (idx, kind, lineno, desc, fn) in enumerate(sites):
        out.append({"id": mid, "kind": kind, "line": lineno, "desc": desc, "_idx": idx, "_fn": fn})
    return src, out


def apply(src, m):
    tree = ast.parse(src)
    nodes = list(ast.walk(tree))
    parents = {}
    for node in nodes:
        for field, value in ast.iter_fields(node):
            if isinstance(value, list):
                for i, c in enumerate(value):
                    if isinstance(c, ast.AST):
                        parents[id(c)] = (node, field, i)
            elif isinstance(value, ast.AST):
                parents[id(value)] = (node, field, None)
    target = nodes[m["_idx"]]
    r = m["_fn"](target)
    if isinstance(r, tuple) and r[0] == "replace":
        par, field, i = parents[id(target)]
        new = ast.copy_location(r[1], target)
        if i is None:
            setattr(par, field, new)
        else:
            getattr(par, field)[i] = new
    ast.fix_missing_locations(tree)
    return ast.unparse(tree)


def scratch():
    d = tempfile.mkdtemp(prefix="sievelib-mutate-")
    shutil.copytree("/repo/sievelib", os.path.join(d, "sievelib"))
    return d


def suite(d):
    try:
        r = subprocess.run([PY, "-m", "pytest", "-q", "-x", "-p", "no:cacheprovider", "sievelib/tests"], cwd=d, capture_output=True,
                           text=True, env=dict(os.environ, PYTHONDONTWRITEBYTECODE="1", PYTHONPATH=d), timeout=90)
    except subprocess.TimeoutExpired:
        return False      # the suite hangs: it notices
    return r.returncode == 0


def run_checks(d, props, scale):
    env = dict(os.environ, VERIF_REPO=d, VERIF_NO_DETERMINISM="1", PYTHONDONTWRITEBYTECODE="1",
               VERIF_REPLAY_DIR=os.path.join(d, "replays"), VERIF_EVIDENCE_DIR=os.path.join(d, "evidence"),
               VERIF_BUDGET_S="120")
    res = {}
    for p in props:
        try:
            r = subprocess.run([PY, os.path.join(VERIF, "bin", "vcheck"), "run", p, "--tier", "quick", "--scale", str(scale)],
                               capture_output=True, text=True, env=env, timeout=900)
            rc = r.returncode
            line = [l for l in r.stdout.splitlines() if l.startswith("violation:")]
        except subprocess.TimeoutExpired:
            rc, line = 3, ["timeout"]
        res[p] = rc
        if rc == 1:
            res["by"] = p
            res["violation"] = (line[0] if line else "")[:300]
            return res
        if rc not in (0, 1):
            res["harness"] = p
    return res


def main(argv):
    if argv[0] == "list":
        src, ms = mutants(os.path.join("/repo", argv[1]))
        for m in ms:
            print(m["id"], m["line"], m["kind"], m["desc"])
        print(len(ms), "mutants")
        return 0
    if argv[0] == "sweep":
        rel, outp = argv[1], argv[2]
        props = ["C05", "C08", "C09", "C10", "C14", "C15", "C16", "C17"]
        scale = 0.15
        lo, hi = 0, None
        a = argv[3:]
        while a:
            if a[0] == "--props":
                props = a[1].split(",")
            elif a[0] == "--scale":
                scale = float(a[1])
            elif a[0] == "--from":
                lo = int(a[1])
            elif a[0] == "--to":
                hi = int(a[1])
            a = a[2:]
        src, ms = mutants(os.path.join("/repo", rel))
        ms = ms[lo:hi]
        with open(outp, "a") as out:
            for m in ms:
                t0 = time.time()
                rec = {"file": rel, "id": m["id"], "line": m["line"], "kind": m["kind"], "desc": m["desc"]}
                try:
                    new = apply(src, m)
                except Exception as e:
                    rec["status"] = "apply-error: %s" % e
                    out.write(json.dumps(rec) + "\n")
                    out.flush()
                    continue
                d = scratch()
                try:
                    open(os.path.join(d, rel), "w").write(new)
                    try:
                        compile(new, rel, "exec")
                    except SyntaxError as e:
                        rec["status"] = "syntax-error"
                        out.write(json.dumps(rec) + "\n")
                        continue
                    if not suite(d):
                        rec["status"] = "killed-by-suite"
                    else:
                        res = run_checks(d, props, scale)
                        rec["checks"] = res
                        rec["status"] = "killed-by-" + res["by"] if "by" in res else ("harness:" + res["harness"] if "harness" in res else "SURVIVED")
                        if rec["status"] == "SURVIVED":
                            # keep the source line for review
                            rec["source_line"] = src.splitlines()[m["line"] - 1].strip()[:160]
                finally:
                    shutil.rmtree(d, ignore_errors=True)
                rec["secs"] = round(time.time() - t0, 1)
                out.write(json.dumps(rec) + "\n")
                out.flush()
        return 0
    if argv[0] == "retest":
        # re-run the survivors of an earlier sweep against the current checks
        inp, outp = argv[1], argv[2]
        props = argv[3].split(",")
        scale = float(argv[4]) if len(argv) > 4 else 0.3
        recs = [json.loads(l) for l in open(inp)]
        done = set()
        if os.path.exists(outp):
            done = {json.loads(l)["id"] for l in open(outp)}
        recs = [r for r in recs if r["id"] not in done]
        by_file = {}
        with open(outp, "a") as out:
            for r in recs:
                if r.get("status") != "SURVIVED":
                    continue
                rel = r["file"]
                if rel not in by_file:
                    by_file[rel] = mutants(os.path.join("/repo", rel))
                src, ms = by_file[rel]
                cand = [m for m in ms if m["line"] == r["line"] and m["kind"] == r["kind"] and m["desc"] == r["desc"]]
                if not cand:
                    r["status"] = "gone (source changed)"
                    out.write(json.dumps(r) + "\n")
                    continue
                m = cand[0]
                d = scratch()
                try:
                    open(os.path.join(d, rel), "w").write(apply(src, m))
                    if not suite(d):
                        r["status"] = "killed-by-suite"
                    else:
                        res = run_checks(d, props, scale)
                        r["checks"] = res
                        r["status"] = "killed-by-" + res["by"] if "by" in res else ("harness:" + res["harness"] if "harness" in res else "SURVIVED")
                finally:
                    shutil.rmtree(d, ignore_errors=True)
                out.write(json.dumps(r) + "\n")
                out.flush()
        return 0
    print(__doc__)
    return 2


if __name__ == "__main__":
    sys.exit(main(sys.argv[1:]))
