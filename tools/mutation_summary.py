#!/venv/bin/python
"""Fold the outputs of tools/mutate.py (sweep + retest, kept outside /verif while
they run) into /verif/mutation/: one compact jsonl per source file and a
summary.json with the counts DESIGN.md quotes.

  mutation_summary.py <sweep-dir> <retest-dir>
"""
import collections
import json
import os
import sys

VERIF = os.path.dirname(os.path.dirname(os.path.abspath(__file__)))


def main(argv):
    sweep, retest = argv[0], argv[1]
    out = os.path.join(VERIF, "mutation")
    os.makedirs(out, exist_ok=True)
    summary = {}
    for name in ("managesieve", "factory", "commands", "tools", "digest"):
        sp = os.path.join(sweep, name + ".jsonl")
        if not os.path.exists(sp):
            continue
        re_ = {}
        rp = os.path.join(retest, name + ".jsonl")
        if os.path.exists(rp):
            for l in open(rp):
                r = json.loads(l)
                re_[r["id"]] = r["status"]
        counts = collections.Counter()
        final = collections.Counter()
        with open(os.path.join(out, name + ".jsonl"), "w") as fp:
            for l in open(sp):
                r = json.loads(l)
                rec = {k: r.get(k) for k in ("file", "id", "line", "kind", "desc", "status")}
                st = r["status"]
                if st == "SURVIVED":
                    rec["source_line"] = r.get("source_line")
                    if r["id"] in re_:
                        rec["retest"] = re_[r["id"]]
                        st = re_[r["id"]] if re_[r["id"]] != "SURVIVED" else st
                    else:
                        rec["retest"] = "not re-run"
                key = st if not st.startswith("apply-error") else "apply-error"
                counts[r["status"] if not r["status"].startswith("apply-error") else "apply-error"] += 1
                final[key] += 1
                fp.write(json.dumps(rec) + "\n")
        total = sum(counts.values())
        killed_suite = final.get("killed-by-suite", 0)
        killed_checks = sum(v for k, v in final.items() if k.startswith("killed-by-C"))
        summary[name] = {
            "mutants": total,
            "killed_by_pinned_suite": killed_suite,
            "killed_by_our_checks": killed_checks,
            "killed_by_check": {k[len("killed-by-"):]: v for k, v in sorted(final.items()) if k.startswith("killed-by-C")},
            "survived_first_sweep": counts.get("SURVIVED", 0),
            "survived_after_retest_with_current_checks": final.get("SURVIVED", 0),
            "harness_errors": sum(v for k, v in final.items() if k.startswith("harness")),
            "not_applicable": final.get("apply-error", 0) + final.get("syntax-error", 0),
        }
    json.dump(summary, open(os.path.join(out, "summary.json"), "w"), indent=1)
    print(json.dumps(summary, indent=1))


main(sys.argv[1:])
