#!/venv/bin/python
"""Re-generate seeded/<id>/patch.diff files that no longer apply to /repo's HEAD (because later fix: commits changed
their context): find the newest /repo commit the patch applies to, commit it there in a scratch worktree, cherry-pick
it onto HEAD and write the resulting diff back.  Conflicts are reported, never resolved silently."""
import json
import os
import subprocess
import sys
import tempfile

VERIF = os.path.dirname(os.path.dirname(os.path.abspath(__file__)))


def run(*a, **k):
    return subprocess.run(list(a), capture_output=True, text=True, **k)


def applies(tree, patch):
    return run("git", "-C", tree, "apply", "--check", patch).returncode == 0


def main():
    base = os.path.join(VERIF, sys.argv[1] if len(sys.argv) > 1 else "seeded")
    head = run("git", "-C", "/repo", "rev-parse", "HEAD").stdout.strip()
    commits = run("git", "-C", "/repo", "log", "--format=%H").stdout.split()
    wt = tempfile.mkdtemp(prefix="sievelib-rebase-")
    os.rmdir(wt)
    run("git", "-C", "/repo", "worktree", "add", "--detach", wt, head)
    try:
        for name in sorted(os.listdir(base)):
            patch = os.path.join(base, name, "patch.diff")
            if not os.path.isfile(patch):
                continue
            run("git", "-C", wt, "checkout", "--detach", "-f", head)
            if applies(wt, patch):
                continue
            found = None
            for c in commits:
                run("git", "-C", wt, "checkout", "--detach", "-f", c)
                if applies(wt, patch):
                    found = c
                    break
            if found is None:
                print("%s: applies to no commit of /repo" % name)
                continue
            run("git", "-C", wt, "apply", patch)
            run("git", "-C", wt, "-c", "user.name=x", "-c", "user.email=x@x", "commit", "-qam", "seeded " + name)
            sha = run("git", "-C", wt, "rev-parse", "HEAD").stdout.strip()
            run("git", "-C", wt, "checkout", "--detach", "-f", head)
            r = run("git", "-C", wt, "-c", "user.name=x", "-c", "user.email=x@x", "cherry-pick", sha)
            if r.returncode != 0:
                run("git", "-C", wt, "cherry-pick", "--abort")
                print("%s: CONFLICT when moved from %s to HEAD; rebase it by hand" % (name, found[:7]))
                continue
            diff = run("git", "-C", wt, "diff", head, "HEAD").stdout
            with open(patch, "w") as fp:
                fp.write(diff)
            mp = os.path.join(base, name, "meta.json")
            m = json.load(open(mp))
            m["note"] = "patch.diff re-generated (git cherry-pick, no conflict) onto /repo %s after later fix: commits changed its context" % head[:7]
            json.dump(m, open(mp, "w"), indent=1)
            print("%s: rebased from %s" % (name, found[:7]))
    finally:
        run("git", "-C", "/repo", "worktree", "remove", "--force", wt)
        run("git", "-C", "/repo", "worktree", "prune")


main()
