#!/venv/bin/python
"""Re-run the checks of one seeded change and update its meta.json.

  refresh_seeded.py <id> [--checks C05,C15] [--note "text"]

If the change was not caught at intake the earlier result is kept under
"earlier_results" so that the record shows it was missed at first.
"""
import json
import os
import sys

sys.path.insert(0, os.path.dirname(os.path.abspath(__file__)))
import seeded as S


def main(argv):
    name = argv[0]
    checks, note = None, None
    a = argv[1:]
    while a:
        if a[0] == "--checks":
            checks = a[1].split(",")
        elif a[0] == "--note":
            note = a[1]
        a = a[2:]
    sd = os.path.join(S.VERIF, "seeded", name)
    mp = os.path.join(sd, "meta.json")
    meta = json.load(open(mp))
    props = checks or meta.get("run_checks") or [meta["property"]]
    res = S.run_checks(sd, props)
    caught = [p for p in props if res[p]["rc"] == 1]
    old = meta.get("what_i_ran", {}).get("checks")
    if old and not meta.get("caught_by"):
        meta.setdefault("earlier_results", []).append({"caught_by": [], "checks": old, "note": note or "missed at intake"})
    meta.setdefault("what_i_ran", {})["checks"] = {p: {"exit": res[p]["rc"], "output": res[p]["lines"], "wall_s": res[p]["wall_s"]} for p in res}
    meta["caught_by"] = caught
    meta["run_checks"] = props
    json.dump(meta, open(mp, "w"), indent=1)
    print(name, "caught_by", caught or "-")


main(sys.argv[1:])
