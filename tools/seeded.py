#!/venv/bin/python
"""Work with seeded breaking changes (patch.diff + demo.py + meta.json).

  seeded.py verify <dir>            suite passes with the patch, demo fails with it and passes without
  seeded.py run <dir> [Cxx ...]     run the named checks (default: meta.json's property) against the patched tree
  seeded.py all [--tier quick]      verify + run every /verif/seeded/*/ and print a table

Everything happens in a scratch copy of /repo under a mkdtemp (removed afterwards);
/repo itself is never modified.
"""
import json
import os
import shutil
import subprocess
import sys
import tempfile
import time

VERIF = os.path.dirname(os.path.dirname(os.path.abspath(__file__)))
PY = "/venv/bin/python"


def scratch(patch=None):
    d = tempfile.mkdtemp(prefix="sievelib-seeded-")
    shutil.copytree("/repo/sievelib", os.path.join(d, "sievelib"))
    for f in ("pyproject.toml", "README.rst"):
        if os.path.exists(os.path.join("/repo", f)):
            shutil.copy(os.path.join("/repo", f), d)
    if patch:
        r = subprocess.run(["git", "apply", "--unsafe-paths", "--directory=" + d, os.path.abspath(patch)], cwd="/",
                           capture_output=True, text=True)
        if r.returncode != 0:
            r = subprocess.run(["patch", "-p1", "-i", os.path.abspath(patch)], cwd=d, capture_output=True, text=True)
            if r.returncode != 0:
                shutil.rmtree(d, ignore_errors=True)
                raise SystemExit("patch does not apply: %s %s" % (r.stdout, r.stderr))
    return d


def suite(d):
    r = subprocess.run([PY, "-m", "pytest", "-q", "-p", "no:cacheprovider", "sievelib/tests"], cwd=d, capture_output=True,
                       text=True, env=dict(os.environ, PYTHONDONTWRITEBYTECODE="1", PYTHONPATH=d), timeout=900)
    tail = (r.stdout.strip().splitlines() or [""])[-1]
    return r.returncode == 0 and "123 passed" in tail, tail


def demo(d, script):
    r = subprocess.run([PY, os.path.abspath(script)], cwd=d, capture_output=True, text=True,
                       env=dict(os.environ, PYTHONDONTWRITEBYTECODE="1", PYTHONPATH=d), timeout=600)
    return r.returncode, (r.stdout + r.stderr)[-400:]


def verify(sd):
    patch = os.path.join(sd, "patch.diff")
    dm = os.path.join(sd, "demo.py")
    out = {}
    d = scratch(patch)
    try:
        out["suite_with_patch"], out["suite_tail"] = suite(d)
        rc, tail = demo(d, dm)
        out["demo_fails_with_patch"] = rc != 0
        out["demo_tail_with_patch"] = tail
    finally:
        shutil.rmtree(d, ignore_errors=True)
    d = scratch(None)
    try:
        rc, tail = demo(d, dm)
        out["demo_passes_without_patch"] = rc == 0
        if rc != 0:
            out["demo_tail_without_patch"] = tail
    finally:
        shutil.rmtree(d, ignore_errors=True)
    out["ok"] = bool(out["suite_with_patch"] and out["demo_fails_with_patch"] and out["demo_passes_without_patch"])
    return out


def run_checks(sd, props, tier="quick", scale=None):
    patch = os.path.join(sd, "patch.diff")
    d = scratch(patch)
    res = {}
    try:
        for p in props:
            env = dict(os.environ, VERIF_REPO=d, VERIF_NO_DETERMINISM="1", PYTHONDONTWRITEBYTECODE="1",
                       VERIF_REPLAY_DIR=os.path.join(d, "replays"), VERIF_EVIDENCE_DIR=os.path.join(d, "evidence"))
            cmd = [PY, os.path.join(VERIF, "bin", "vcheck"), "run", p, "--tier", tier]
            if scale:
                cmd += ["--scale", str(scale)]
            t0 = time.time()
            r = subprocess.run(cmd, capture_output=True, text=True, env=env, timeout=7200)
            lines = [l for l in r.stdout.splitlines() if l.startswith(("violation:", "VIOLATION", "PASS", "HARNESS", "KNOWN"))]
            res[p] = {"rc": r.returncode, "lines": [l[:400] for l in lines], "wall_s": round(time.time() - t0, 1)}
    finally:
        shutil.rmtree(d, ignore_errors=True)
    return res


def main(argv):
    if not argv:
        print(__doc__)
        return 2
    cmd = argv[0]
    if cmd == "verify":
        out = verify(argv[1])
        print(json.dumps(out, indent=1))
        return 0 if out["ok"] else 1
    if cmd == "run":
        sd = argv[1]
        props = argv[2:]
        tier = "quick"
        if props and props[-1].startswith("tier="):
            tier = props.pop()[5:]
        if not props:
            props = [json.load(open(os.path.join(sd, "meta.json")))["property"]]
        res = run_checks(sd, props, tier)
        print(json.dumps(res, indent=1))
        return 0
    if cmd == "all":
        tier = "quick"
        base = os.path.join(VERIF, "seeded")
        rows = []
        for name in sorted(os.listdir(base)):
            sd = os.path.join(base, name)
            if not os.path.isfile(os.path.join(sd, "patch.diff")):
                continue
            meta = json.load(open(os.path.join(sd, "meta.json")))
            props = meta.get("run_checks") or [meta["property"]]
            res = run_checks(sd, props, tier)
            caught = [p for p in props if res[p]["rc"] == 1]
            rows.append((name, meta["property"], ",".join(caught) or "-", "; ".join("%s rc=%d %.0fs" % (p, res[p]["rc"], res[p]["wall_s"]) for p in props)))
            print("%-28s %-5s caught_by=%-10s %s" % rows[-1], flush=True)
        missed = [r for r in rows if r[2] == "-"]
        print("%d seeded changes, %d missed" % (len(rows), len(missed)))
        return 0
    print(__doc__)
    return 2


if __name__ == "__main__":
    sys.exit(main(sys.argv[1:]))
