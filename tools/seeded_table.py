#!/venv/bin/python
"""Print a markdown table of the seeded changes under /verif/seeded."""
import json, os
base = os.path.join(os.path.dirname(os.path.dirname(os.path.abspath(__file__))), "seeded")
print("| id | breaks | what was changed | needs, to manifest | caught by |")
print("|----|--------|------------------|--------------------|-----------|")
for name in sorted(os.listdir(base)):
    mp = os.path.join(base, name, "meta.json")
    if not os.path.isfile(mp):
        continue
    m = json.load(open(mp))
    def cut(x, n):
        x = " ".join(str(x).split()).replace("|", "/")
        return x if len(x) <= n else x[:n - 1] + "…"
    print("| %s | %s | %s | %s | %s |" % (name, m.get("breaks_property", m.get("property")), cut(m.get("summary", ""), 150), cut(m.get("needs", ""), 150), ", ".join(m.get("caught_by") or ["—"])))
